"""rs2lean_rc.py — translator tie for rand_core 0.9.5 (the crate the five generator crates delegate to) and for the wrapper
types built on it.  The source is the registry copy `~/.cargo/registry/src/*/rand_core-0.9.5/src/{impls,block,le,lib}.rs`
(resolved by glob; version and sha256 of the four files go into the report).

`RcFnTr` extends the translator of rs2lean.py by what this generic library code needs:
  * type-level abstraction of the generics, the way Model/RandCore.lean is parametrised:
      `R: RngCore` used through next_u32 / next_u64  ->  `(g : Direct σ) (rng : σ)`       (rng is returned)
      `R: RngCore / TryRngCore` used through (try_)fill_bytes  ->  `(fill : TryFill ρ) (rng : ρ)`, result `Except SrcErr _ × ρ`
      `BlockRng<R>` / `BlockRng64<R>`  ->  `(c : BlockCore σ w) (st : BlockRng σ)`; `self.core.generate(&mut self.results)` is
      `c.generate st.core st.results`; `R::Results::default()` is the zero array of the type's length `c.len`;
      `Self: SeedableRng`  ->  `(seedLen : Nat) (fromSeed : List U8 → σ)`, `Self::Seed::default()` is `List.replicate seedLen 0`;
  * `&mut [u8]` buffers as `List U8` values that are returned; slice views of them with *dynamic* offset and length
    (`let mut left = dest; … { left }.split_at_mut(8) …; left = r`, `&mut dest[read_len..]`); `copy_from_slice` on such a view is
    `splice buf off src` (Lib/ExtTieRc.lean);
  * `while c { … }` as `whileF fuel (fun s => c) (fun s => …) s`: the loop runs at most `fuel` times, `fuel` becomes a
    parameter of the function, and the correspondence theorems hold for every fuel (the model's loops are fuelled the same way;
    that the fuel the model supplies suffices is proved on the model side: BlockRefine.fillLoop_spec …);
  * closures bound by `let` and called (`read_u64`), inlined at the call;
  * `if let Some(x) = it.next()`, `chunks_exact_mut` / `iter` / `zip` / `for_each` / `into_remainder` on slices (fill_via_chunks,
    seed_from_u64): iterator objects with an explicit position (see `Iter` below).
Anything else is `Unsupported`."""
import glob, hashlib, os, re
import rsfront
from rsfront import Unsupported
import rs2lean
from rs2lean import (FnTr, Unit, StructInfo, Val, Var, Scope, INT, WRAP, lname, lit_lean, lean_ty, is_arr, unwrap_ty, const_eval,
                     ty_of_tokens, parse_ty, TYCTX)

FILES = ["impls.rs", "block.rs", "le.rs", "lib.rs"]

def find_source():
    """(directory, version, sha256 over the four files) of the registry copy of rand_core 0.9.5, or (None, None, None)"""
    ds = sorted(glob.glob(os.path.expanduser("~/.cargo/registry/src/*/rand_core-0.9.5/src")))
    for d in ds:
        if all(os.path.exists(os.path.join(d, f)) for f in FILES):
            h = hashlib.sha256()
            for f in FILES:
                h.update(open(os.path.join(d, f), "rb").read())
            return d, "0.9.5", h.hexdigest()
    return None, None, None

# ------------------------------------------------------------------ the translator
class DynView:
    """a slice view of a byte buffer with offset and length held in Lean variables"""
    def __init__(self, base, off, ln):
        self.base, self.off, self.len = base, off, ln        # base: Var of the buffer; off / ln: Lean text

class RcFnTr(FnTr):
    def __init__(self, unit, fname, inferred=None):
        super().__init__(unit, fname, inferred)
        self.fuels = []
        self.closures = {}

    # ---------- signature
    def classify(self, n, toks, gen, mutref, body_text):
        """how a parameter is represented: (kind, Lean parameter texts, rust type for the scope)"""
        s = "".join(t[1] for t in toks)
        core = s[4:] if s.startswith("&mut") else (s[1:] if s.startswith("&") else s)
        bound = dict(re.findall(r"(\w+) : ([\w ?+:]+?)(?: ,|$)", gen))
        is_rng = core in ("implRngCore", "implTryRngCore") or \
            (core in bound and re.search(r"\b(Try)?RngCore\b", bound[core]) and "BlockRngCore" not in bound[core])
        if is_rng:
            if re.search(r"\b" + re.escape(n) + r" \. (try_)?fill_bytes \(", body_text):
                return ("src", [f"(fill : TryFill ρ) ({lname(n)} : ρ)"], None)
            return ("direct", [f"(g : Direct σ) ({lname(n)} : σ)"], None)
        if core == "[u8]":
            return ("bytes", [f"({lname(n)} : List U8)"], ("slice", "u8"))
        m = re.match(r"^\[(\w+)\]$", core)
        if m:
            ety = self.u.elem_types.get(m.group(1), m.group(1))
            if ety == "@T":
                return ("words", [f"({lname(n)} : List (BitVec w))"], ("wlist", "@T"))
            if ety in INT:
                if mutref:
                    return ("array", [f"({lname(n)} : Array (BitVec {INT[ety]}))"], ("slice", ety))
                return ("words", [f"({lname(n)} : List (BitVec {INT[ety]}))"], ("wlist", ety))
        if core == self.u.core_param:
            return ("core", [f"({lname(n)} : σ)"], ("named", "@core"))
        if core in ("Self::Seed",) and self.u.seedable:
            return ("bytes_in", [f"({lname(n)} : List U8)"], ("slice", "u8"))
        if core in ("Self", self.u.sinfo.name) and not mutref:
            return ("selfval", [f"({lname(n)} : {self.u.sinfo.lean})"], ("named", "Self"))
        ty = parse_ty(s)
        return ("plain", [f"({lname(n)} : {lean_ty(ty)})"], ty)

    def translate(self):
        fn = self.fn
        sig = self.u.sigs[self.fname]
        self.sig = sig
        self.u.enter()
        rsfront._expansion_counter[0] = 0
        stmts, tail = rsfront.parse_body(fn.body, self.u.macros)
        self.lines, self.scope, self.outs, self.out_vars = [], Scope(), [], {}
        self.rng, self.rng_fallible, self.direct = None, False, None
        gen = " ".join(t[1] for t in (fn.generics or [])) + " , " + self.u.generics
        body_text = " ".join(t[1] for t in fn.body)
        params, rparts = list(self.u.lead_params), []
        if sig["selfkind"]:
            params.append(f"(st : {self.u.sinfo.lean})")
            self.scope.declare("self", Var("self", ("named", "Self"), "st"))
        for (n, _), p in zip(sig["params"], [p for p in fn.params if p[0] != "self"]):
            mr = n in sig["mutref"]
            kind, texts, ty = self.classify(n, p[1], gen, mr, body_text)
            if kind == "src":
                self.rng = Var(n, ("named", "@rng"), lname(n)); self.scope.declare(n, self.rng)
            elif kind == "direct":
                self.direct = Var(n, ("named", "@direct"), lname(n), mutref=True); self.scope.declare(n, self.direct)
                self.outs.append(n); rparts.append("σ"); self.out_vars[n] = self.direct
            elif kind in ("bytes", "array"):
                v = Var(n, ty, lname(n), mutref=mr); self.scope.declare(n, v)
                if kind == "bytes" and mr:
                    # the length of a slice never changes: it is read once (a `copy_from_slice` of the wrong length is a panic)
                    v.len_name = f"{lname(n)}_len"
                    self.emit(f"let {v.len_name} := {lname(n)}.length;")
                if mr:
                    self.outs.append(n); rparts.append("List U8" if kind == "bytes" else f"Array (BitVec {INT[ty[1]]})")
                    self.out_vars[n] = v
            elif kind == "plain" and mr:
                v = Var(n, ty, lname(n), mutref=True); self.scope.declare(n, v)
                self.outs.append(n); rparts.append(lean_ty(ty)); self.out_vars[n] = v
            else:
                self.scope.declare(n, Var(n, ty, lname(n)))
            params += texts
        ret = sig["ret"]
        self.ret_tuple = None
        if self.rng is not None:
            if isinstance(ret, tuple) and ret[0] == "named" and re.match(r"^Result<Self,\w+::Error>$", ret[1]):
                self.rng_fallible, ret = True, ("named", "Result")
            elif ret not in (("named", "Self"), ("named", self.u.name)):
                raise Unsupported("function with a source parameter that does not construct Self")
        if ret is not None and ret != ("named", "Result") and self.ret_is_self(ret):
            ret = ("named", "Self")
        body = self.body_to_lean(stmts, tail, ret, sig["selfkind"])
        fuel = [f"({f} : Nat)" for f in self.fuels]
        # fuel parameters come right after the unit's leading parameters
        k = len(self.u.lead_params)
        params = params[:k] + fuel + params[k:]
        text = "\n  ".join(self.lines + [body])
        if self.rng is not None:
            return params, f"Except SrcErr ({self.u.self_lean}) × ρ", text
        if ret is not None:
            rparts.insert(0, self.ret_lean(ret))
        if sig["selfkind"] == "mut":
            rparts.append(self.u.sinfo.lean)
        return params, (" × ".join(rparts) if rparts else "Unit"), text

    def ret_is_self(self, ret):
        return ret in (("named", "Self"), ("named", self.u.sinfo.name)) or \
            (isinstance(ret, tuple) and ret[0] == "named" and ret[1].startswith(self.u.sinfo.name + "<"))

    def ret_lean(self, ret):
        if self.ret_is_self(ret):
            return self.u.self_lean
        if isinstance(ret, tuple) and ret[0] == "named" and ret[1] == "(usize,usize)":
            return "(Nat × Nat)"
        return lean_ty(ret)

    # ---------- tuples of assigned variables: a dynamic view is two Lean variables
    def tuple_of(self, names):
        parts = []
        for n in names:
            if n == "self":
                parts.append("st"); continue
            v = self.scope.get(n)
            if v is None:
                raise Unsupported(f"assigned variable {n} not in scope")
            d = getattr(v, "dyn", None)
            if d is not None:
                parts += [d.off, d.len]
            elif v.elems is not None:
                parts.extend(x.lean for x in v.elems)
            else:
                parts.append(v.lean)
        if not parts:
            return "()"
        return parts[0] if len(parts) == 1 else "(" + ", ".join(parts) + ")"

    def assigned(self, stmts, tail, declared=None):
        out = super().assigned(stmts, tail, declared)
        blk = (stmts, tail)
        # resources that are threaded through every block that uses them (an over-approximation is harmless)
        if self.direct is not None and self.mentions(blk, self.direct.name) and self.direct.name not in out:
            out.append(self.direct.name)
        text = repr(blk)
        for n in self.outs:
            v = self.out_vars.get(n)
            if v is not None and v.ty == ("slice", "u8") and v.name not in out and self.scope.get(n) is v and \
                    ("copy_from_slice" in text or "'call'" in text):
                out.append(n)
        return out

    # ---------- helpers for slices
    def dyn_of(self, e):
        """the dynamic view denoted by an expression (a view variable, the buffer itself, `{ left }`, `&mut buf[a..]`), or None"""
        while e[0] in ("paren", "ref", "deref") or (e[0] == "block" and not e[1] and e[2] is not None) or \
                (e[0] == "mcall" and e[2] in ("as_mut", "as_ref", "by_ref") and not e[3]):
            e = e[2] if e[0] in ("ref", "block") else e[1]
        if e[0] == "path" and len(e[1]) == 1:
            v = self.lookup(e[1][0])
            if v is None:
                return None
            d = getattr(v, "dyn", None)
            if d is not None:
                return d
            if v.ty == ("slice", "u8") and v.elems is None:
                return DynView(v, "0", getattr(v, "len_name", None) or f"{v.lean}.length")
            return None
        if e[0] == "index" and e[2][0] == "range":
            d = self.dyn_of(e[1])
            if d is None:
                return None
            lo, hi, incl = e[2][1], e[2][2], e[2][3]
            lov = self.expr(lo, "nat") if lo is not None else Val("0", "nat", lit=0)
            off = lov.lean if d.off == "0" else (d.off if lov.lit == 0 else f"{d.off} + {lov.atom()}")
            if hi is None:
                ln = d.len if lov.lit == 0 else f"{Val(d.len, 'nat').atom()} - {lov.atom()}"
            else:
                hv = self.expr(hi, "nat")
                h = f"({hv.lean} + 1)" if incl else hv.atom()
                ln = h if lov.lit == 0 else f"{h} - {lov.atom()}"
            return DynView(d.base, off, ln)
        return None

    def bytes_of(self, e):
        """Lean text of a byte-slice *value* (the source of a copy_from_slice): arrays, `&x[..n]`, `x.as_ref()`, views"""
        while e[0] in ("paren", "ref", "deref") or (e[0] == "mcall" and e[2] in ("as_mut", "as_ref") and not e[3]):
            e = e[2] if e[0] == "ref" else e[1]
        if e[0] == "index" and e[2][0] == "range":
            b = self.bytes_of(e[1])
            lo, hi, incl = e[2][1], e[2][2], e[2][3]
            t = b
            if hi is not None:
                hv = self.expr(hi, "nat")
                t = f"List.take {('(' + hv.lean + ' + 1)') if incl else hv.atom()} {Val(t, None).atom()}"
            if lo is not None:
                lv = self.expr(lo, "nat")
                if lv.lit != 0:
                    t = f"List.drop {lv.atom()} {Val(t, None).atom()}"
            return t
        d = self.dyn_of(e)
        if d is not None:
            if d.off == "0" and d.len in (f"{d.base.lean}.length", getattr(d.base, "len_name", None)):
                return d.base.lean
            return f"List.take {Val(d.len, None).atom()} (List.drop {Val(d.off, None).atom()} {d.base.lean})"
        v = self.expr(e)
        if v.elems is not None:
            return "[" + ", ".join(x.lean for x in v.elems) + "]"
        if isinstance(v.ty, tuple) and v.ty[0] in ("arr", "slice") and v.ty[1] == "u8":
            return v.lean
        raise Unsupported("byte slice expression")

    def splice_into(self, d, src):
        """`view.copy_from_slice(src)`: (a length mismatch is a panic in Rust: not this tie's subject)"""
        b = d.base
        if d.off == "0" and d.len in (f"{b.lean}.length", getattr(b, "len_name", None)):
            self.emit(f"let {b.lean} := splice {b.lean} 0 {Val(src, None).atom()};")
        else:
            self.emit(f"let {b.lean} := splice {b.lean} {Val(d.off, None).atom()} {Val(src, None).atom()};")

    # ---------- expressions
    def mcall(self, e, want):
        _, recv, name, args = e
        r0 = recv
        while r0[0] == "paren":
            r0 = r0[1]
        if r0[0] == "path" and len(r0[1]) == 1:
            v = self.scope.get(r0[1][0])
            if v is not None and v is self.direct and name in ("next_u32", "next_u64") and not args:
                t = self.fresh("r")
                self.emit(f"let {t} := g.{'nextU32' if name == 'next_u32' else 'nextU64'} {v.lean};")
                self.emit(f"let {v.lean} := {t}.2;")
                return Val(f"{t}.1", "u32" if name == "next_u32" else "u64")
        if name == "len" and not args:
            d = self.dyn_of(recv)
            if d is not None:
                return Val(d.len, "nat")
            v = self.expr(recv)
            if isinstance(v.ty, tuple) and v.ty[0] == "slice" and v.ty[1] != "u8":
                return Val(f"{v.atom()}.size", "nat")
            if isinstance(v.ty, tuple) and v.ty[0] == "wlist":
                return Val(f"{v.atom()}.length", "nat")
            if isinstance(v.ty, tuple) and v.ty[0] in ("arr", "slice") and v.ty[1] == "u8" and v.elems is None:
                return Val(f"{v.atom()}.length", "nat")
            if v.elems is not None:
                return Val(str(len(v.elems)), "nat", lit=len(v.elems))
            if is_arr(v.ty):
                return Val(str(v.ty[2]), "nat", lit=v.ty[2])
            raise Unsupported(".len() on this type")          # (the receiver has been evaluated: no second evaluation by the base class)
        if name == "copy_from_slice" and len(args) == 1:
            d = self.dyn_of(recv)
            if d is not None:
                self.splice_into(d, self.bytes_of(args[0]))
                return Val("()", "unit")
        if name == "is_empty" and not args:
            d = self.dyn_of(recv)
            if d is not None:
                return Val(f"{Val(d.len, None).atom()} == 0", "bool")
        if name == "to_le_bytes" and not args and r0[0] == "path" and len(r0[1]) == 1:
            v = self.scope.get(r0[1][0])
            if v is not None and v.ty == "@T":
                return Val(f"toLE {v.lean}", ("slice", "u8"))
        if name == "unwrap" and not args and r0[0] == "mcall" and r0[2] == "try_into" and not r0[3] and r0[1][0] == "path":
            # `chunk.try_into().unwrap()`: the c bytes of a chunk as an array
            v = self.scope.get(r0[1][1][0])
            bv = getattr(v, "bview", None) if v is not None else None
            if bv is not None:
                return Val(None, ("arr", "u8", bv[2]), elems=[Val(f"byteAt {bv[0]} ({bv[1]}{'' if k == 0 else f' + {k}'})", "u8") for k in range(bv[2])])
        if name == "generate" and len(args) == 1 and r0[0] == "field" and r0[2] == "core" and self.struct_var(r0[1]) is not None:
            # `self.core.generate(&mut self.results)`: the BlockRngCore of the type parameter
            sv = self.struct_var(r0[1])
            a = args[0]
            while a[0] in ("ref", "paren"):
                a = a[2] if a[0] == "ref" else a[1]
            if not (a[0] == "field" and a[2] == "results" and self.struct_var(a[1]) == sv):
                raise Unsupported("core.generate on something other than the results buffer")
            t = self.fresh("r")
            self.emit(f"let {t} := c.generate {sv}.core {sv}.results;")
            self.emit(f"let {sv} : {self.u.sinfo.lean} := {{ {sv} with results := {t}.1, core := {t}.2 }};")
            return Val("()", "unit")
        return super().mcall(e, want)

    def call(self, e, want):
        f, args = e[1], e[2]
        if f[0] == "path":
            name, full = f[1][-1], "::".join(f[1])
            if len(f[1]) == 1 and name in self.closures and self.scope.get(name) is self.closures[name][0]:
                return self.inline_closure(name, args, want)
            if full in ("core::mem::size_of", "mem::size_of", "size_of") and not args and self.u.generic_elem:
                return Val("size", "nat")
            if full == f"{self.u.core_param}::Results::default" and not args and self.u.core_param:
                return Val(f"Array.replicate c.len {lit_lean(0, self.u.word)}", ("slice", self.u.word))
            if full == "Self::Seed::default" and not args and self.u.seedable:
                return Val("List.replicate seedLen 0#8", ("slice", "u8"))
            if full == "Self::from_seed" and len(args) == 1 and self.u.seedable:
                return Val(f"fromSeed {Val(self.bytes_of(args[0]), None).atom()}", ("named", "Self"))
            if name in self.u.sigs and (len(f[1]) == 1 or f[1][0] in ("Self", self.u.name)) and self.u.sigs[name].get("rc"):
                return self.rc_call(name, args)
        return super().call(e, want)

    def inline_closure(self, name, args, want):
        _, params, body = self.closures[name]
        if len(params) != len(args):
            raise Unsupported("closure call with a different number of arguments")
        sc = Scope(self.scope)
        for p, a in zip(params, args):
            a0 = a
            while a0[0] in ("ref", "paren") or (a0[0] == "mcall" and a0[2] in ("as_ref", "as_mut") and not a0[3]):
                a0 = a0[2] if a0[0] == "ref" else a0[1]
            v = self.expr(a0)
            if v.lean is None or v.elems is not None:
                raise Unsupported("closure argument")
            t = self.fresh("e")
            if re.match(r"^[\w.']+$", v.lean):
                t = v.lean
            else:
                self.emit(f"let {t} := {v.lean};")
            sc.declare(p, Var(p, v.ty, t, const=True))
        saved = self.scope
        self.scope = sc
        try:
            if body[0] == "block":
                self.stmts(body[1])
                return self.expr(body[2], want)
            return self.expr(body, want)
        finally:
            self.scope = saved

    def read_place(self, e, want=None):
        if e[0] == "index" and e[2][0] != "range":
            # words of a dynamic word view `let data = &results[i..=j]`
            b = e[1]
            while b[0] in ("paren", "deref"):
                b = b[1]
            if b[0] == "path" and len(b[1]) == 1:
                v = self.scope.get(b[1][0])
                w = getattr(v, "wview", None) if v is not None else None
                if w is not None:
                    idx = self.expr(e[2], "nat")
                    i = w[1] if idx.lit == 0 else f"{w[1]} + {idx.atom()}"
                    return Val(f"rd {w[0]} {Val(i, None).atom()}", w[2])
        return super().read_place(e, want)

    # ---------- statements
    def new_dyn(self, n, base, off, ln):
        o, l = f"{lname(n)}_o", f"{lname(n)}_n"
        self.emit(f"let {o} := {off};")
        self.emit(f"let {l} := {ln};")
        v = Var(n, ("slice", "u8"), None)
        v.dyn = DynView(base, o, l)
        self.scope.declare(n, v)
        return v

    def declare_let(self, s):
        _, pat, mut, ty, init = s
        i0 = init
        while i0 is not None and i0[0] == "paren":
            i0 = i0[1]
        if pat[0] == "name" and i0 is not None:
            if i0[0] == "closure":
                v = Var(pat[1], ("named", "@closure"), None, const=True)
                self.scope.declare(pat[1], v)
                self.closures[pat[1]] = (v, i0[1], i0[2])
                return
            # `let data = &results[a..=b];` on a word array: a view with a dynamic offset
            j = i0
            while j[0] in ("ref", "paren"):
                j = j[2] if j[0] == "ref" else j[1]
            if j[0] == "index" and j[2][0] == "range" and j[2][1] is not None:
                try:
                    b = self.expr(j[1])
                except Unsupported:
                    b = None
                if b is not None and isinstance(b.ty, tuple) and b.ty[0] in ("slice", "arr") and b.ty[1] != "u8" and b.elems is None:
                    lo = self.expr(j[2][1], "nat")
                    v = Var(pat[1], None, None, const=True)
                    v.wview = (b.atom(), lo.lean, b.ty[1])
                    self.scope.declare(pat[1], v)
                    return
            d = self.dyn_of(i0) if i0[0] in ("path", "index", "ref", "block", "mcall") else None
            if d is not None and not (i0[0] == "mcall" and i0[2] not in ("as_mut", "as_ref", "by_ref")):
                self.new_dyn(pat[1], d.base, d.off, d.len)
                return
        if pat[0] == "tuple" and i0 is not None and i0[0] == "mcall" and i0[2] in ("split_at_mut", "split_at") and len(i0[3]) == 1:
            d = self.dyn_of(i0[1])
            if d is not None and len(pat[1]) == 2:
                k = self.expr(i0[3][0], "nat")
                self.new_dyn(pat[1][0], d.base, d.off, k.lean)
                self.new_dyn(pat[1][1], d.base, f"{d.off} + {k.atom()}", f"{Val(d.len, None).atom()} - {k.atom()}")
                return
        if pat[0] == "tuple" and i0 is not None and i0[0] == "call":
            v = self.expr(i0)
            if isinstance(v.ty, tuple) and v.ty[0] == "tuple" and len(v.ty[1]) == len(pat[1]):
                for k, (n, t) in enumerate(zip(pat[1], v.ty[1])):
                    self.emit(f"let {lname(n)} := {self.proj(v.atom(), k, len(pat[1]))};")
                    self.scope.declare(n, Var(n, t, lname(n)))
                return
        return super().declare_let(s)

    def stmt(self, s, rest):
        k = s[0]
        if k == "assign" and s[2] is None and s[1][0] == "path" and len(s[1][1]) == 1:
            v = self.scope.get(s[1][1][0])
            d = getattr(v, "dyn", None) if v is not None else None
            if d is not None:
                src = self.dyn_of(s[3])
                if src is None or src.base is not d.base:
                    raise Unsupported("assignment of a slice view")
                o, l = self.fresh("e"), self.fresh("e")
                self.emit(f"let {o} := {src.off};"); self.emit(f"let {l} := {src.len};")
                self.emit(f"let {d.off} := {o};"); self.emit(f"let {d.len} := {l};")
                return
        if k == "while":
            return self.while_stmt(s)
        return super().stmt(s, rest)

    def zip_for(self, var, it0, body):
        """`for (out, chunk) in dst.iter_mut().zip(src.chunks_exact(c))` with slices of dynamic length: min(dst.len(), src.len() / c)
        iterations; `chunk` is the j-th c-byte piece of src"""
        if len(var[1]) == 2 and it0[0] == "mcall" and it0[2] == "zip" and len(it0[3]) == 1:
            l, r = it0[1], it0[3][0]
            if l[0] == "mcall" and l[2] == "iter_mut" and not l[3] and r[0] == "mcall" and r[2] == "chunks_exact" and len(r[3]) == 1 \
                    and l[1][0] == "path" and r[1][0] == "path":
                dv, sv = self.lookup(l[1][1][0]), self.lookup(r[1][1][0])
                cz = self.expr(r[3][0], "nat").lit
                if dv is not None and sv is not None and cz and isinstance(dv.ty, tuple) and dv.ty[0] == "slice" and dv.ty[1] != "u8" \
                        and sv.ty == ("slice", "u8") and dv.mutref and body[1] is None:
                    j = self.fresh("j") + "'"
                    out, chunk = var[1]
                    def f():
                        cv = Var(chunk, None, None, const=True)
                        cv.bview = (sv.lean, f"{cz} * {j}", cz)
                        self.scope.declare(chunk, cv)
                        self.stmts(self.subst_deref(body[0], {out: ("index", l[1], ("path", [j]))}))
                        return dv.lean
                    self.scope.declare(j, Var(j, "nat", j, const=True))
                    lines, t = self.sub(f)
                    self.emit(f"let {dv.lean} := List.foldl (fun ({dv.lean}) {j} => {self.render(lines, t)}) {dv.lean} "
                              f"(List.range (min {dv.lean}.size ({sv.lean}.length / {cz})));")
                    return
        return super().zip_for(var, it0, body)

    def while_stmt(self, s):
        """`while c { body }` — at most `fuel` iterations (whileF, Lib/ExtTieRc.lean); `fuel` is a new parameter of the function"""
        _, c, body = s
        self.preflush(s)
        names = self.assigned(body[0], body[1])
        for n in self.assigned([("expr", c)], None):
            if n not in names:
                names.append(n)
        fuel = f"fuel_{len(self.fuels) + 1}"
        self.fuels.append(fuel)
        pat = self.tuple_of(names)
        bp = pat if pat.startswith("(") else f"({pat})"
        def fc():
            v = self.expr(c, "bool")
            return v.lean
        lc, tc = self.sub(fc)
        def fb():
            self.stmts(body[0])
            if body[1] is not None:
                self.expr(body[1])
            self.end_scope()
            return self.tuple_of(names)
        lb, tb = self.sub(fb)
        self.emit(f"let {pat} := whileF {fuel} (fun {bp} => {self.render(lc, tc)}) (fun {bp} => {self.render(lb, tb)}) {pat};")

    def rc_call(self, name, args):
        """call of another function of this unit whose parameters include slices: a `&mut [u8]` argument is passed by value and
        the result is spliced back into the caller's buffer"""
        sig = self.u.sigs[name]
        kinds = sig["rc"]
        if len(args) != len(kinds):
            raise Unsupported(f"call of {name}")
        texts, backs = list(self.u.lead_args), []
        for a, (kind, pn) in zip(args, kinds):
            if kind == "bytes":
                d = self.dyn_of(a)
                if d is None:
                    raise Unsupported("byte-slice argument")
                t = self.fresh("b")
                self.emit(f"let {t} := {self.bytes_of(a)};")
                texts.append(t); backs.append(d)
            elif kind == "words":
                a0 = a
                while a0[0] in ("ref", "paren"):
                    a0 = a0[2] if a0[0] == "ref" else a0[1]
                if a0[0] == "index" and a0[2][0] == "range" and a0[2][2] is None:
                    b = self.expr(a0[1])
                    lo = self.expr(a0[2][1], "nat") if a0[2][1] is not None else Val("0", "nat", lit=0)
                    if not (isinstance(b.ty, tuple) and b.ty[0] in ("slice", "arr") and b.ty[1] != "u8"):
                        raise Unsupported("word-slice argument")
                    texts.append(f"({b.atom()}.toList.drop {lo.atom()})")
                else:
                    b = self.expr(a0)
                    if isinstance(b.ty, tuple) and b.ty[0] == "wlist":
                        texts.append(b.atom())
                    elif isinstance(b.ty, tuple) and b.ty[0] in ("slice", "arr") and b.ty[1] != "u8":
                        texts.append(f"{b.atom()}.toList")
                    else:
                        raise Unsupported("word-slice argument")
            else:
                texts.append(self.expr(a).atom())
        call = f"{self.u.callee_ns.get(name, self.u.namespace)}.{name}" + "".join(" " + t for t in self.u.callee_lead.get(name, [])) + "".join(" " + t for t in texts[len(self.u.lead_args):])
        ncomp = (1 if sig["ret"] is not None else 0) + len(backs)
        t = self.fresh("r")
        self.emit(f"let {t} := {call};")
        k = 0
        res = Val("()", "unit")
        if sig["ret"] is not None:
            rt = sig["ret"]
            if rt == ("named", "(usize,usize)"):
                rt = ("tuple", ("nat", "nat"))
            res = Val(self.proj(t, 0, ncomp), rt); k = 1
        for d in backs:
            self.splice_into(d, self.proj(t, k, ncomp)); k += 1
        return res

    def body_to_lean(self, stmts, tail, ret_ty, selfkind):
        # `rng.fill_bytes(seed.as_mut());` / `rng.try_fill_bytes(seed.as_mut())?;` on the byte source of the function
        for i, s in enumerate(stmts):
            if s[0] == "expr" and self.rng is not None:
                e, q = s[1], False
                if e[0] == "try":
                    e, q = e[1], True
                if e[0] == "mcall" and e[1] == ("path", [self.rng.name]) and e[2] in ("fill_bytes", "try_fill_bytes") and len(e[3]) == 1:
                    if (e[2] == "try_fill_bytes") != q or q != self.rng_fallible:
                        raise Unsupported("fill_bytes / try_fill_bytes does not match the result type")
                    self.stmts(stmts[:i])
                    d = self.dyn_of(e[3][0])
                    if d is None or d.off != "0" or d.len not in (f"{d.base.lean}.length", getattr(d.base, "len_name", None)):
                        raise Unsupported("source filled into something other than a whole local buffer")
                    bs, er, rng, buf = self.fresh("bytes"), self.fresh("err"), self.rng.lean, d.base.lean
                    n = f"{buf}.length"
                    def g():
                        # a source overwrites the whole buffer it is given (the TryFill abstraction of Model/RandCore)
                        self.emit(f"let {buf} := {bs};")
                        return self.body_to_lean(stmts[i + 1:], tail, ret_ty, selfkind)
                    l2, r2 = self.sub(g)
                    return (f"match fill {rng} {n} with\n  | (.ok {bs}, {rng}) => {self.render(l2, r2)}"
                            f"\n  | (.error {er}, {rng}) => (.error {er}, {rng})")
        return super().body_to_lean(stmts, tail, ret_ty, selfkind)

# ------------------------------------------------------------------ units
class RcUnit(Unit):
    """a group of rand_core functions with one abstraction of their generics (see the module docstring)"""
    def __init__(self, name, sinfo, methods, namespace, lead_params, lead_args, generics="", core_param=None, word=None,
                 seedable=False, generic_elem=False, elem_types=None, self_lean=None, fn_lead=None):
        super().__init__(name, sinfo, methods, {}, {}, {}, namespace, {}, {})
        self.lead_params, self.lead_args, self.generics = lead_params, lead_args, generics
        self.core_param, self.word, self.seedable, self.generic_elem = core_param, word, seedable, generic_elem
        self.elem_types = elem_types or {}
        self.self_lean = self_lean or sinfo.lean
        self.fn_lead = fn_lead or {}
        self.callee_lead, self.callee_ns = {}, {}
        self.extern = {m: f"{namespace}.{m}" + "".join(" " + a for a in self.fn_lead.get(m, (None, lead_args))[1]) for m in methods}

    def translate_fn(self, fname):
        inferred = {}
        self.enter()
        saved = (self.lead_params, self.lead_args)
        if fname in self.fn_lead:
            self.lead_params, self.lead_args = self.fn_lead[fname]
        try:
            for _ in range(6):
                tr = RcFnTr(self, fname, inferred)
                params, rty, text = tr.translate()
                if not tr.changed:
                    break
        finally:
            self.lead_params, self.lead_args = saved
        rs2lean.LAST[(self.name, fname)] = dict(ignored_asserts=list(tr.ignored_asserts))
        self.fuels[fname] = list(tr.fuels)
        if "@@" in text:
            raise Unsupported(f"a type could not be inferred in {fname}")
        return f"def {fname} {' '.join(params)} : {rty} :=\n  {text}"

    fuels = {}

def build_units(report):
    """yields (unit, order); `report["rand_core"]` gets the source location, version and digest"""
    d, ver, digest = find_source()
    if d is None:
        report["rand_core"] = dict(error="rand_core source not found")
        return
    report["rand_core"] = dict(source=d, version=ver, sha256=digest)
    fi, fb, fl, fr = (rsfront.load(os.path.join(d, f)) for f in FILES)
    TYCTX["aliases"], TYCTX["consts"] = {}, {}
    # impls.rs, le.rs: free functions
    obs = {ty: "".join(t[1] for t in fns["to_le_bytes"].body) for trait, ty, fns, consts in fi.impls
           if trait == "Observable" and "to_le_bytes" in fns}
    ms = {k: v for k, v in fi.fns.items() if k in ("next_u64_via_u32", "fill_bytes_via_next", "fill_via_chunks") and v.body is not None}
    ms.update({k: v for k, v in fl.fns.items() if k in ("read_u32_into", "read_u64_into") and v.body is not None})
    u = RcUnit("RandCore", StructInfo("RandCore", "Unit", {}), ms, "Rngs.Ext.RandCore", ["{σ : Type}"], [], generic_elem=True,
               elem_types={"T": "@T"},
               fn_lead={"fill_via_chunks": (["{w : Nat}", "(size : Nat)", "(toLE : BitVec w → List U8)"], ["size", "toLE"]),
                        "read_u32_into": ([], []), "read_u64_into": ([], [])})
    u.shape, u.seed_len, u.file = ("rand_core", 0), None, "rand_core-0.9.5/src/impls.rs, le.rs"
    yield u, ["next_u64_via_u32", "fill_bytes_via_next", "fill_via_chunks", "read_u32_into", "read_u64_into"]
    # block.rs
    for sname, w, lean in (("BlockRng", 32, "BlockRng σ"), ("BlockRng64", 64, "BlockRng64 σ")):
        ms = {}
        for trait, ty, fns, consts in fb.impls:
            if ty == sname and trait in (None, "RngCore", "SeedableRng"):
                ms.update({k: v for k, v in fns.items() if v.body is not None})
        fields = {"results": (("slice", f"u{w}"), "results"), "index": ("nat", "index"), "core": (("named", "@core"), "core")}
        if sname == "BlockRng64":
            fields["half_used"] = ("bool", "halfUsed")
        want = [n for n, _ in fb.structs.get(sname, [])]
        if sorted(want) != sorted(fields):
            report["RandCore" + sname] = dict(error=f"fields of {sname} are {want}")
            continue
        L = ["{σ : Type}", f"(c : BlockCore σ {w})"]
        u = RcUnit("RandCore" + sname, StructInfo(sname, lean, fields), ms, "Rngs.Ext.RandCore" + sname,
                   L, ["c"], generics="R : BlockRngCore", core_param="R", word=f"u{w}",
                   fn_lead={"from_seed": (L + ["(r_from_seed : List U8 → σ)"], ["c", "r_from_seed"]),
                            "seed_from_u64": (L + ["(r_seed_from_u64 : U64 → σ)"], ["c", "r_seed_from_u64"]),
                            "from_rng": (["{σ ρ : Type}", L[1], "(r_from_rng : TryFill ρ → ρ → Except SrcErr σ × ρ)"], ["c", "r_from_rng"]),
                            "try_from_rng": (["{σ ρ : Type}", L[1], "(r_try_from_rng : TryFill ρ → ρ → Except SrcErr σ × ρ)"], ["c", "r_try_from_rng"])})
        # the SeedableRng of the type parameter R, abstracted as functions
        u.fn_terms = {"R::from_seed": ("bytes1", "r_from_seed", ("named", "@core")), "R::seed_from_u64": ("plain1", "r_seed_from_u64", ("named", "@core"))}
        u.src_callees = {"R::from_rng": "r_from_rng", "R::try_from_rng": "r_try_from_rng"}
        u.shape, u.seed_len, u.file = ("rand_core", w), None, "rand_core-0.9.5/src/block.rs"
        # `fill_via_chunks(src, dest)` of impls.rs at T = u32 / u64: `size_of::<T>()` and `<T as Observable>::to_le_bytes`
        if obs.get(f"u{w}") == "Self::to_le_bytes(self)" and "fill_via_chunks" in fi.fns:
            u.sigs["fill_via_chunks"] = dict(selfkind=None, params=[("src", None), ("dest", None)], mutref={"dest"},
                                             ret=("named", "(usize,usize)"), rc=[("words", "src"), ("bytes", "dest")])
            u.callee_ns["fill_via_chunks"] = "Rngs.Ext.RandCore"
            u.callee_lead["fill_via_chunks"] = [str(w // 8), f"U{w}.toLE"]
        yield u, ["new", "index", "reset", "generate_and_set", "next_u32", "next_u64", "fill_bytes", "from_seed", "seed_from_u64",
                  "from_rng", "try_from_rng"]
    # lib.rs: the default methods of SeedableRng
    tr = fr.traits.get("SeedableRng")
    if tr is None:
        report["RandCoreSeedable"] = dict(error="trait SeedableRng not found")
        return
    ms = {k: v for k, v in tr.fns.items() if k in ("seed_from_u64", "from_rng", "try_from_rng") and v.body is not None}
    if "seed_from_u64" in ms:
        import extract_units
        extract_units.add_nested(ms, "seed_from_u64", None, {})
    u = RcUnit("RandCoreSeedable", StructInfo("SeedableRng", "σ", {}), ms, "Rngs.Ext.RandCoreSeedable",
               ["{σ : Type}", "(seedLen : Nat)", "(fromSeed : List U8 → σ)"], ["seedLen", "fromSeed"], seedable=True, self_lean="σ",
               fn_lead={"pcg32": ([], []),
                        "from_rng": (["{σ ρ : Type}", "(seedLen : Nat)", "(fromSeed : List U8 → σ)"], ["seedLen", "fromSeed"]),
                        "try_from_rng": (["{σ ρ : Type}", "(seedLen : Nat)", "(fromSeed : List U8 → σ)"], ["seedLen", "fromSeed"])})
    u.shape, u.seed_len, u.file = ("rand_core", 0), None, "rand_core-0.9.5/src/lib.rs"
    yield u, ["pcg32", "seed_from_u64", "from_rng", "try_from_rng"]

# ------------------------------------------------------------------ correspondence theorems (statement, property ids, proof script)
def _block(G, M, w):
    E = f"Ext.{G}"
    hs = "st.results.size = c.len →"
    sz = "Array.size_replicate"
    th = {
        "new": (f"∀ {{σ : Type}} (c : BlockCore σ {w}) (core : σ), {E}.new c core = {M}.new c core", ["C05", "C09", "C14"],
                f"intros\n  simp only [{E}.new, {M}.new, {sz}]\n  first | done | rfl"),
        "index": (f"∀ {{σ : Type}} (c : BlockCore σ {w}) (st : {M} σ), {E}.index c st = st.index", ["C05", "C10"], "intros; rfl"),
        "generate_and_set": (f"∀ {{σ : Type}} (c : BlockCore σ {w}) (st : {M} σ) (i : Nat), {E}.generate_and_set c st i = " +
                             (f"{M}.generateAndSet c st i" if w == 32 else
                              "{ st with results := (c.generate st.core st.results).1, core := (c.generate st.core st.results).2, index := i, halfUsed := false }"),
                             ["C05", "C14"], "intros; rfl"),
        "reset": (f"∀ {{σ : Type}} (c : BlockCore σ {w}) (st : {M} σ), {hs} {E}.reset c st = " +
                  ("{ st with index := c.len }" if w == 32 else "{ st with index := c.len, halfUsed := false }"), ["C05"],
                  f"intro σ c st h\n  simp only [{E}.reset, h]"),
        "next_u32": (f"∀ {{σ : Type}} (c : BlockCore σ {w}) (st : {M} σ), {hs} {E}.next_u32 c st = {M}.nextU32 c st", ["C05", "C14"],
                     f"intro σ c st h\n  simp only [{E}.next_u32, {M}.nextU32, h, ExtTie.{G}.generate_and_set, ge_iff_le, decide_eq_true_eq]\n  first | done | rfl | (split <;> rfl)"),
        "next_u64": (f"∀ {{σ : Type}} (c : BlockCore σ {w}) (st : {M} σ), {hs} {E}.next_u64 c st = {M}.nextU64 c st", ["C05", "C14"],
                     f"intro σ c st h\n  simp only [{E}.next_u64, {M}.nextU64, h, ExtTie.{G}.generate_and_set, ge_iff_le, decide_eq_true_eq, BlockRng.readU64]\n  first | done | rfl | (split <;> rfl)"),
    }
    st0 = "st" if w == 32 else "({ st with halfUsed := false } : BlockRng64 σ)"
    fl = f"({M}.fillLoop c dest.length fuel 0 [] {st0})"
    gen = f"ExtTie.{G}.generate_and_set, " if w == 32 else ""
    th["fill_bytes"] = (
        f"∀ {{σ : Type}} (c : BlockCore σ {w}) (fuel : Nat) (st : {M} σ) (dest : List U8), BlockRefine.SizeOK c → st.results.size = c.len → "
        f"{E}.fill_bytes c fuel st dest = ({fl}.1 ++ dest.drop {fl}.1.length, {fl}.2)", ["C05", "C14"],
        f"""intro σ c fuel st dest hs h
  unfold {E}.fill_bytes
  simp only []
  rw [show ({st0}, dest, 0) = ({st0}, [] ++ dest, ([] : List U8).length) from rfl]
  rw [whileF_blockFill{w} c hs dest.length _ _ (by intros; rfl)
        (by intro st d rl
            simp only [ExtTie.RandCore.fill_via_chunks {w // 8} U{w}.toLE _ _ (by decide) (fun _ => rfl), {gen}ge_iff_le, decide_eq_true_eq]
            first | done | rfl)
        fuel [] dest {st0} h rfl]
  first | done | rfl""")
    return th

def _read_into(w):
    n = w // 8
    return (f"∀ (src : List U8) (dst : Array (BitVec {w})), {n} * dst.size ≤ src.length → "
            f"Ext.RandCore.read_u{w}_into src dst = (readU{w}s src dst.size).toArray", ["C09", "C14"],
            f"intro src dst h\n  unfold Ext.RandCore.read_u{w}_into readU{w}s\n  rw [Nat.min_eq_left (by omega)]\n"
            f"  exact foldl_wr_range (le{w}At src) dst")

PROOF_FVC = """intro w size toLE src dest hs hlen
  unfold Ext.RandCore.fill_via_chunks fillViaChunks
  simp only [Nat.zero_add, Nat.sub_zero]
  have hk : min (dest.length / size) src.length ≤ src.length := Nat.min_le_right _ _
  rw [foldl_splice_words size toLE hlen src dest _ hk]
  generalize hK : min (dest.length / size) src.length = K at hk ⊢
  have hB : (List.flatMap toLE (List.take K src)).length = K * size := by
    have : ∀ (l : List (BitVec w)), (l.flatMap toLE).length = l.length * size := by
      intro l; induction l with
      | nil => simp
      | cons x xs ih => simp [List.flatMap_cons, hlen, ih, Nat.succ_mul]; omega
    rw [this, List.length_take, Nat.min_eq_left hk]
  by_cases hlt : K < src.length
  · have hKd : K = dest.length / size := by omega
    have hg : src.getD K 0 = src[K] := by simp [List.getD, hlt]
    rw [List.drop_eq_getElem_cons hlt]
    simp only [hlt, decide_true, if_true, gt_iff_lt, decide_eq_true_eq, hg]
    by_cases hn : 0 < dest.length % size
    · have hx : (List.take (dest.length % size) (toLE src[K])).length = dest.length % size := by
        rw [List.length_take, hlen]; exact Nat.min_eq_left (Nat.le_of_lt (Nat.mod_lt _ hs))
      simp only [hn, if_true]
      rw [← hKd, ← hB, splice_append, hx, List.drop_drop, hB]
    · simp only [hn, if_false]
  · have hd : List.drop K src = [] := List.drop_eq_nil_of_le (by omega)
    simp only [hlt, decide_false, Bool.false_eq_true, if_false, hd]"""

PROOF_SEED = """intro σ seedLen fromSeed x
  unfold Ext.RandCoreSeedable.seed_from_u64 pcg32Seed
  simp only [Nat.zero_add, Nat.sub_zero, List.length_replicate, List.range_eq_range']
  rw [show (x, List.replicate seedLen (0#8)) = (x, ([] : List U8) ++ List.replicate seedLen (0#8)) from rfl]
  rw [foldl_chunks Rngs.pcg32 4 pcg32_length _ (by intro s buf j; simp only [ExtTie.RandCoreSeedable.pcg32]) (seedLen / 4) 0 x [] _ rfl, chunksOf_pcg32]
  have hl := pcg32Chunks_length (seedLen / 4) x
  generalize pcg32Chunks (seedLen / 4) x = p at hl ⊢
  have hr : (List.drop (seedLen / 4 * 4) (List.replicate seedLen (0#8))).length = seedLen % 4 := by
    simp only [List.length_drop, List.length_replicate]; omega
  simp only [List.nil_append, ExtTie.RandCoreSeedable.pcg32]
  by_cases h0 : seedLen % 4 = 0
  · have hd : List.drop (seedLen / 4 * 4) (List.replicate seedLen (0#8)) = [] := List.eq_nil_of_length_eq_zero (by omega)
    simp [h0, hd]
  · have hx : (List.take (seedLen % 4) (Rngs.pcg32 p.2).1).length
        = (List.drop (seedLen / 4 * 4) (List.replicate seedLen (0#8))).length := by
      rw [hr, List.length_take, pcg32_length]; omega
    have hb : (!(seedLen % 4 == 0)) = true := by simp [h0]
    rw [if_pos hb, if_pos h0]
    simp only []
    rw [splice_at_end _ _ _ _ (by omega) hx]"""

RC_THEOREMS = {
    "RandCore": {
        "read_u32_into": _read_into(32), "read_u64_into": _read_into(64),
        "fill_via_chunks": ("∀ {w : Nat} (size : Nat) (toLE : BitVec w → List U8) (src : List (BitVec w)) (dest : List U8), "
                            "0 < size → (∀ x, (toLE x).length = size) → Ext.RandCore.fill_via_chunks size toLE src dest = "
                            "(((fillViaChunks size toLE src dest.length).1, (fillViaChunks size toLE src dest.length).2.1), "
                            "(fillViaChunks size toLE src dest.length).2.2 ++ dest.drop (fillViaChunks size toLE src dest.length).2.1)",
                            ["C05", "C14"], PROOF_FVC),
        "next_u64_via_u32": ("∀ {σ : Type} (g : Direct σ) (s : σ), Ext.RandCore.next_u64_via_u32 g s = nextU64ViaU32 g.nextU32 s", ["C05"],
                             "intros; rfl"),
        "fill_bytes_via_next": ("∀ {σ : Type} (g : Direct σ) (fuel : Nat) (s : σ) (dest : List U8), dest.length / 8 ≤ fuel → "
                                "Ext.RandCore.fill_bytes_via_next fuel g s dest = ((fillBytesViaNext g dest.length s).2, (fillBytesViaNext g dest.length s).1)",
                                ["C05", "C14"],
                                """intro σ g fuel s dest h
  unfold Ext.RandCore.fill_bytes_via_next fillBytesViaNext
  simp only []
  rw [show (0, dest.length, s, dest) = (([] : List U8).length, dest.length, s, [] ++ dest) from rfl]
  rw [whileF_fillLoop g _ _ (by intros; rfl) (by intros; rfl) fuel [] dest s h]
  have hl := Seed.fillLoop_length g.nextU64 (dest.length / 8) s
  generalize fillLoop g.nextU64 (dest.length / 8) s = p at hl ⊢
  simp only [List.length_nil, List.nil_append, Nat.zero_add, gt_iff_lt, decide_eq_true_eq]
  by_cases h4 : 4 < dest.length % 8
  · have hx : (List.take (dest.length % 8) (U64.toLE (g.nextU64 p.2).1)).length = dest.length % 8 := by
      rw [List.length_take, show (U64.toLE (g.nextU64 p.2).1).length = 8 from rfl]; omega
    simp only [h4, if_true, splice_tail _ _ _ hl hx]
  · by_cases h0 : 0 < dest.length % 8
    · have hx : (List.take (dest.length % 8) (U32.toLE (g.nextU32 p.2).1)).length = dest.length % 8 := by
        rw [List.length_take, show (U32.toLE (g.nextU32 p.2).1).length = 4 from rfl]; omega
      simp only [h4, h0, if_true, if_false, splice_tail _ _ _ hl hx]
    · have hz : dest.length % 8 = 0 := by omega
      have hd : List.drop (8 * (dest.length / 8)) dest = [] := List.drop_eq_nil_of_le (by omega)
      simp only [h4, h0, if_false, hd, List.append_nil]"""),
    },
    "RandCoreSeedable": {
        "pcg32": ("∀ s, Ext.RandCoreSeedable.pcg32 s = Rngs.pcg32 s", ["C09"],
                  "intro s\n  simp only [Ext.RandCoreSeedable.pcg32, Rngs.pcg32, PCG_MUL, PCG_INC]"),
        "seed_from_u64": ("∀ {σ : Type} (seedLen : Nat) (fromSeed : List U8 → σ) (x : U64), "
                          "Ext.RandCoreSeedable.seed_from_u64 seedLen fromSeed x = fromSeed (pcg32Seed seedLen x)", ["C09"], PROOF_SEED),
        "from_rng": ("∀ {σ ρ : Type} (seedLen : Nat) (fromSeed : List U8 → σ) (fill : TryFill ρ) (src : ρ), "
                     "Ext.RandCoreSeedable.from_rng seedLen fromSeed fill src = fromRngDefault seedLen fromSeed fill src", ["C09"],
                     "intros\n  simp only [Ext.RandCoreSeedable.from_rng, fromRngDefault, List.length_replicate]\n  first | done | rfl"),
        "try_from_rng": ("∀ {σ ρ : Type} (seedLen : Nat) (fromSeed : List U8 → σ) (fill : TryFill ρ) (src : ρ), "
                         "Ext.RandCoreSeedable.try_from_rng seedLen fromSeed fill src = fromRngDefault seedLen fromSeed fill src", ["C09"],
                         "intros\n  simp only [Ext.RandCoreSeedable.try_from_rng, fromRngDefault, List.length_replicate]\n  first | done | rfl"),
    },
    "RandCoreBlockRng": _block("RandCoreBlockRng", "BlockRng", 32),
    "RandCoreBlockRng64": _block("RandCoreBlockRng64", "BlockRng64", 64),
}

def theorems(u, done):
    """[(name, statement, props, key)], {name: proof script}"""
    th, proofs = [], {}
    for fn in done:
        t = RC_THEOREMS.get(u.name, {}).get(fn)
        if t is not None:
            th.append((f"{u.name}.{fn}", t[0], t[1], fn))
            proofs[f"{u.name}.{fn}"] = t[2]
    return th, proofs

# ------------------------------------------------------------------ iterators over slices (fill_via_chunks, seed_from_u64)
# An iterator is a translator-level object (never a Lean value) with an explicit position held in a Lean variable:
#   chunks : `buf.chunks_exact_mut(size)` — view of the buffer, chunk size, number of chunks consumed `k`; `count = len / size`;
#            `into_remainder()` is the view (off + count * size, len % size) whatever was consumed;
#   words  : `src.iter()` on a word list — position `p`;
#   zip    : `a.by_ref().zip(b.by_ref())` — `len()` is the minimum of what is left; `for_each` runs that many times, advances `b`
#            by exactly that (a is polled first: when a is exhausted b is not touched; when b is exhausted it stays exhausted) and
#            leaves `a` at an unspecified position (a may have lost one more chunk): afterwards only `a.into_remainder()` is accepted.
def _contains_return(x):
    if isinstance(x, tuple):
        if x and x[0] == "return":
            return True
        if x and x[0] in ("closure", "fn"):
            return False
        return any(_contains_return(y) for y in x)
    if isinstance(x, list):
        return any(_contains_return(y) for y in x)
    return False

def _desugar_iflet(x):
    """for the analysis of assigned variables only: `if let Some(v) = e { A } else { B }` as `if e { let v = 0; A } else { B }`"""
    if isinstance(x, tuple):
        if x and x[0] == "iflet":
            _, ctor, var, e, th, el = x
            th2 = ([("let", ("name", var), False, None, ("lit", 0, None))] + _desugar_iflet(th[0]), _desugar_iflet(th[1]))
            return ("if", _desugar_iflet(e), th2, _desugar_iflet(el) if el is not None else None)
        return tuple(_desugar_iflet(y) for y in x)
    if isinstance(x, list):
        return [_desugar_iflet(y) for y in x]
    return x

class RcIterMixin:
    pass

def _install():
    C = RcFnTr
    base_assigned, base_mcall, base_declare_let, base_body, base_for = C.assigned, C.mcall, C.declare_let, C.body_to_lean, C.for_stmt

    def assigned(self, stmts, tail, declared=None):
        out = base_assigned(self, _desugar_iflet(stmts), _desugar_iflet(tail), declared)
        # iterator positions are variables too
        text = repr((stmts, tail))
        sc = self.scope
        while sc:
            for n, v in sc.vars.items():
                it = getattr(v, "iter", None)
                if it is not None and it.get("pos") and n not in out and self.mentions((stmts, tail), n):
                    out.append(n)
            sc = sc.parent
        # byte buffers written through views: every buffer that has a view / chunk iterator in scope is threaded through a block
        # that copies into slices (an over-approximation; entries are Var objects because the Rust name may be shadowed)
        if "copy_from_slice" in text:
            bufs = []
            sc = self.scope
            while sc:
                for n, v in sc.vars.items():
                    d = getattr(v, "dyn", None)
                    it = getattr(v, "iter", None)
                    b = d.base if d is not None else (it["view"].base if it is not None and it.get("kind") == "chunks" else None)
                    if b is not None and not any(b is x for x in bufs):
                        bufs.append(b)
                sc = sc.parent
            for b in bufs:
                if not any((x is b) or (isinstance(x, str) and self.scope.get(x) is b) for x in out):
                    out.append(b)
        return out
    C.assigned = assigned

    base_tuple_of = C.tuple_of
    def tuple_of(self, names):
        plain, extra = [], []
        for n in names:
            if isinstance(n, Var):
                extra.append(n.lean)
                continue
            v = self.scope.get(n) if n != "self" else None
            it = getattr(v, "iter", None) if v is not None else None
            if it is not None:
                if it.get("pos"):
                    extra.append(it["pos"])
            else:
                plain.append(n)
        t = base_tuple_of(self, plain)
        if not extra:
            return t
        parts = ([] if t == "()" else [t[1:-1] if t.startswith("(") else t]) + extra
        return parts[0] if len(parts) == 1 else "(" + ", ".join(parts) + ")"
    C.tuple_of = tuple_of

    def iter_of(self, e):
        while e[0] in ("paren", "ref") or (e[0] == "mcall" and e[2] == "by_ref" and not e[3]):
            e = e[2] if e[0] == "ref" else e[1]
        if e[0] == "path" and len(e[1]) == 1:
            v = self.lookup(e[1][0])
            if v is not None and getattr(v, "iter", None) is not None:
                return v
        return None
    C.iter_of = iter_of

    def declare_let(self, s):
        _, pat, mut, ty, init = s
        i0 = init
        while i0 is not None and i0[0] == "paren":
            i0 = i0[1]
        if pat[0] == "name" and i0 is not None and i0[0] == "mcall":
            n = pat[1]
            if i0[2] in ("chunks_exact_mut", "chunks_exact") and len(i0[3]) == 1:
                d = self.dyn_of(i0[1])
                if d is not None:
                    size = self.expr(i0[3][0], "nat")
                    k = self.fresh(lname(n) + "_k")
                    self.emit(f"let {k} := 0;")
                    if not re.match(r"^\w+$", d.len):
                        ln = self.fresh(lname(n) + "_len")
                        self.emit(f"let {ln} := {d.len};")
                        d = DynView(d.base, d.off, ln)
                    v = Var(n, None, None)
                    v.iter = dict(kind="chunks", view=d, size=size.atom(), pos=k, spent=False)
                    self.scope.declare(n, v)
                    return
            if i0[2] == "iter" and not i0[3]:
                r = i0[1]
                while r[0] == "paren":
                    r = r[1]
                sv = self.lookup(r[1][0]) if r[0] == "path" and len(r[1]) == 1 else None
                if sv is not None and isinstance(sv.ty, tuple) and sv.ty[0] == "wlist":
                    p = self.fresh(lname(n) + "_p")
                    self.emit(f"let {p} := 0;")
                    v = Var(n, None, None)
                    v.iter = dict(kind="words", src=sv, pos=p)
                    self.scope.declare(n, v)
                    return
            if i0[2] == "zip" and len(i0[3]) == 1:
                a, b = self.iter_of(i0[1]), self.iter_of(i0[3][0])
                if a is not None and b is not None and a.iter["kind"] == "chunks" and b.iter["kind"] == "words":
                    v = Var(n, None, None, const=True)
                    v.iter = dict(kind="zip", a=a, b=b, pos=None)
                    self.scope.declare(n, v)
                    return
            if i0[2] == "into_remainder" and not i0[3]:
                it = self.iter_of(i0[1])
                if it is not None and it.iter["kind"] == "chunks":
                    d, sz = it.iter["view"], it.iter["size"]
                    ln = Val(d.len, None).atom()
                    off = f"{ln} / {sz} * {sz}" if d.off == "0" else f"{d.off} + {ln} / {sz} * {sz}"
                    self.new_dyn(n, d.base, off, f"{ln} % {sz}")
                    return
        return base_declare_let(self, s)
    C.declare_let = declare_let

    def remaining(self, it):
        if it.iter["kind"] == "chunks":
            if it.iter["spent"]:
                raise Unsupported("use of a chunk iterator after a zip consumed it")
            d = it.iter["view"]
            return f"({Val(d.len, None).atom()} / {it.iter['size']} - {it.iter['pos']})"
        return f"({it.iter['src'].lean}.length - {it.iter['pos']})"
    C.remaining = remaining

    def mcall(self, e, want):
        _, recv, name, args = e
        it = self.iter_of(recv) if recv[0] in ("path", "paren", "ref", "mcall") else None
        if it is not None:
            k = it.iter["kind"]
            if name == "len" and not args and k == "zip":
                return Val(f"min {self.remaining(it.iter['a'])} {self.remaining(it.iter['b'])}", "nat")
            if name == "for_each" and k == "zip" and len(args) == 1 and args[0][0] == "closure" and \
                    len([q for q in args[0][1] if q not in ("(", ")")]) == 2:
                a, b = it.iter["a"], it.iter["b"]
                n = f"min {self.remaining(a)} {self.remaining(b)}"
                j = self.fresh("j") + "'"
                pa, pb = [q for q in args[0][1] if q not in ("(", ")")]
                d, sz = a.iter["view"], a.iter["size"]
                buf = d.base
                def f():
                    cv = Var(pa, ("slice", "u8"), None)
                    off = f"({a.iter['pos']} + {j}) * {sz}" if d.off == "0" else f"{d.off} + ({a.iter['pos']} + {j}) * {sz}"
                    cv.dyn = DynView(buf, off, sz)
                    self.scope.declare(pa, cv)
                    self.scope.declare(pb, Var(pb, b.iter["src"].ty[1], f"({b.iter['src'].lean}.getD ({b.iter['pos']} + {j}) 0)", const=True))
                    body = args[0][2]
                    n0 = len(self.lines)
                    if body[0] == "block":
                        self.stmts(body[1])
                        if body[2] is not None:
                            self.stmt(("expr", body[2]), [])
                    else:
                        self.stmt(("expr", body), [])
                    return buf.lean
                self.scope.declare(j, Var(j, "nat", j, const=True))
                lines, t = self.sub(f)
                self.emit(f"let {buf.lean} := List.foldl (fun ({buf.lean}) {j} => {self.render(lines, t)}) {buf.lean} (List.range ({n}));")
                t2 = self.fresh("e")
                self.emit(f"let {t2} := {b.iter['pos']} + {n};")
                self.emit(f"let {b.iter['pos']} := {t2};")
                a.iter["spent"] = True
                return Val("()", "unit")
            raise Unsupported(f"method .{name}() on an iterator")
        return base_mcall(self, e, want)
    C.mcall = mcall

    def for_stmt(self, s):
        _, var, it, body = s
        i0 = it
        while i0[0] in ("ref", "paren"):
            i0 = i0[2] if i0[0] == "ref" else i0[1]
        itv = self.iter_of(i0) if i0[0] == "path" else None
        if itv is not None and itv.iter["kind"] == "chunks" and var[0] == "name":
            # `for chunk in &mut iter { … }`: all the chunks that are left
            n = self.remaining(itv)
            d, sz = itv.iter["view"], itv.iter["size"]
            j = self.fresh("j") + "'"
            names = [x for x in self.assigned(body[0], body[1], declared={var[1]}) if x != itv.name]
            if not any((x is d.base) or (isinstance(x, str) and self.scope.get(x) is d.base) for x in names):
                names.append(d.base)
            def f():
                cv = Var(var[1], ("slice", "u8"), None)
                off = f"({itv.iter['pos']} + {j}) * {sz}" if d.off == "0" else f"{d.off} + ({itv.iter['pos']} + {j}) * {sz}"
                cv.dyn = DynView(d.base, off, sz)
                self.scope.declare(var[1], cv)
                self.stmts(body[0])
                if body[1] is not None:
                    self.stmt(("expr", body[1]), [])
                self.end_scope()
                return self.tuple_of(names)
            self.scope.declare(j, Var(j, "nat", j, const=True))
            lines, t = self.sub(f)
            pat = self.tuple_of(names)
            bp = pat if pat.startswith("(") else f"({pat})"
            self.emit(f"let {pat} := List.foldl (fun {bp} {j} => {self.render(lines, t)}) {pat} (List.range {n});")
            t2 = self.fresh("e")
            self.emit(f"let {t2} := {itv.iter['pos']} + {n};")
            self.emit(f"let {itv.iter['pos']} := {t2};")
            return
        return base_for(self, s)
    C.for_stmt = for_stmt

    def body_to_lean(self, stmts, tail, ret_ty, selfkind):
        """sequencing with `return` at any depth: `if c { A } else { B }; R` with a return inside is `if c then A;R else B;R`"""
        for i, s in enumerate(stmts):
            if s[0] == "expr" and s[1][0] in ("if", "iflet") and _contains_return(s[1]):
                self.stmts(stmts[:i])
                e = s[1]
                rest = stmts[i + 1:]
                if e[0] == "if":
                    cv = self.expr(e[1], "bool").lean
                    th, el, bind = e[2], e[3], None
                else:
                    _, ctor, var, ex, th, el = e
                    m = ex
                    while m[0] == "paren":
                        m = m[1]
                    itv = self.iter_of(m[1]) if m[0] == "mcall" and m[2] == "next" and not m[3] else None
                    if ctor != "Some" or itv is None or itv.iter["kind"] != "words":
                        raise Unsupported("if let")
                    p, src = itv.iter["pos"], itv.iter["src"]
                    cv = f"decide ({p} < {src.lean}.length)"
                    bind = (var, src, p)
                def seq(blk, binding):
                    def g():
                        if binding is not None:
                            var, src, p = binding
                            x = self.fresh(lname(var))
                            self.emit(f"let {x} := {src.lean}.getD {p} 0;")
                            t2 = self.fresh("e")
                            self.emit(f"let {t2} := {p} + 1;"); self.emit(f"let {p} := {t2};")
                            self.scope.declare(var, Var(var, src.ty[1], x, const=True))
                        b0 = blk[0] if blk is not None else []
                        b1 = blk[1] if blk is not None else None
                        if b1 is not None:
                            b0 = b0 + [("expr", b1)]
                        return self.body_to_lean(b0 + rest, tail, ret_ty, selfkind)
                    return self.sub(g)
                l1, r1 = seq(th, bind)
                l2, r2 = seq(el, None)
                return f"if {cv} then {self.render(l1, r1)} else {self.render(l2, r2)}"
        return base_body(self, stmts, tail, ret_ty, selfkind)
    C.body_to_lean = body_to_lean

_install()

# ------------------------------------------------------------------ constructors that pass the byte source on, wrapper types
def _install2():
    C = RcFnTr
    base_body, base_call, base_classify = C.body_to_lean, C.call, C.classify

    def classify(self, n, toks, gen, mutref, body_text):
        s = "".join(t[1] for t in toks)
        core = s[4:] if s.startswith("&mut") else (s[1:] if s.startswith("&") else s)
        if core == "Self::Seed" and (self.u.core_param or getattr(self.u, "wrap", None)):
            return ("bytes_in", [f"({lname(n)} : List U8)"], ("slice", "u8"))
        k = base_classify(self, n, toks, gen, mutref, body_text)
        if k[0] == "direct" and self.src_call_in(body_text, n):
            return ("src", [f"(fill : TryFill ρ) ({lname(n)} : ρ)"], None)
        return k
    C.classify = classify

    def src_call_in(self, body_text, n):
        return re.search(r":: (try_)?from_rng \( " + re.escape(n) + r" \)", body_text) is not None
    C.src_call_in = src_call_in

    def src_callee(self, f):
        """Lean text of a constructor that takes the byte source (`R::from_rng`, `BlockRng::<Core>::try_from_rng`), applied to
        everything but `fill rng`; None when the path is not one"""
        if f[0] != "path" or f[1][-1] not in ("from_rng", "try_from_rng"):
            return None
        t = self.u.src_callees.get("::".join(f[1]))
        return t
    C.src_callee = src_callee

    def one_arg_fn(self, f, v):
        """`F(v)` for a path F used as a function of one argument: `Self::new`, the constructor of a newtype"""
        if f[0] != "path":
            raise Unsupported("function value")
        full = "::".join(f[1])
        if full in ("Self::new",) and "new" in self.u.sigs:
            return f"({self.u.extern.get('new') or self.u.namespace + '.new'} {v})"
        if len(f[1]) == 1 and f[1][0] == getattr(self.u, "newtype", None):
            return v
        raise Unsupported(f"function value {full}")
    C.one_arg_fn = one_arg_fn

    def body_to_lean(self, stmts, tail, ret_ty, selfkind):
        if self.rng is not None and tail is not None and not any(_contains_return(s) for s in stmts):
            t = tail
            while t[0] == "paren":
                t = t[1]
            S = F = None
            if t[0] == "call" and len(t[2]) == 1 and t[2][0][0] == "call" and self.src_callee(t[2][0][1]) is not None:
                F, S = t[1], t[2][0]                                      # F(S(rng))
            elif t[0] == "mcall" and t[2] == "map" and len(t[3]) == 1 and t[1][0] == "call" and self.src_callee(t[1][1]) is not None:
                F, S = t[3][0], t[1]                                      # S(rng).map(F)
            if S is not None:
                if S[2] != [("path", [self.rng.name])]:
                    raise Unsupported("constructor from a source with other arguments")
                fallible = S[1][1][-1] == "try_from_rng"
                if fallible != self.rng_fallible or (fallible and t[0] != "mcall") or (not fallible and t[0] != "call"):
                    raise Unsupported("from_rng / try_from_rng does not match the result type")
                self.stmts(stmts)
                v, er, rng = self.fresh("v"), self.fresh("err"), self.rng.lean
                return (f"match {self.src_callee(S[1])} fill {rng} with\n  | (.ok {v}, {rng}) => (.ok {self.one_arg_fn(F, v)}, {rng})"
                        f"\n  | (.error {er}, {rng}) => (.error {er}, {rng})")
        return base_body(self, stmts, tail, ret_ty, selfkind)
    C.body_to_lean = body_to_lean

    def call(self, e, want):
        f, args = e[1], e[2]
        if f[0] == "path":
            full = "::".join(f[1])
            t = self.u.fn_terms.get(full)
            if t is not None:
                kind, text, ret = t
                if kind == "bytes1" and len(args) == 1:
                    return Val(f"{text} {Val(self.bytes_of(args[0]), None).atom()}", ret)
                if kind == "plain1" and len(args) == 1:
                    return Val(f"{text} {self.expr(args[0]).atom()}", ret)
            if len(f[1]) == 1 and f[1][0] == getattr(self.u, "newtype", None) and len(args) == 1:
                return self.expr(args[0], want)                            # the constructor of a newtype
        return base_call(self, e, want)
    C.call = call

_install2()
RcUnit.src_callees = {}
RcUnit.fn_terms = {}

def _install3():
    """the wrapper types `Hc128Rng(BlockRng<Hc128Core>)`, `IsaacRng(BlockRng<IsaacCore>)`, `Isaac64Rng(BlockRng64<Isaac64Core>)`:
    `self.0` is the state itself; its methods are the translated ones of RandCoreBlockRng(64) at the core's BlockCore"""
    C = RcFnTr
    base_mcall, base_read, base_binop = C.mcall, C.read_place, C.binop

    def is_inner(self, v):
        return v.ty == ("named", "@blockrng")

    def mcall(self, e, want):
        _, recv, name, args = e
        wr = getattr(self.u, "wrap", None)
        if wr is not None and name in ("next_u32", "next_u64", "fill_bytes", "index") and recv[0] == "field" and recv[2] == "0":
            v = self.expr(recv)
            if v.ty == ("named", "@blockrng"):
                fn = f"Rngs.Ext.{wr['block']}.{name} {wr['C']}"
                if name == "index" and not args:
                    return Val(f"{fn} {v.atom()}", "nat")
                if name in ("next_u32", "next_u64") and not args:
                    t = self.fresh("r")
                    self.emit(f"let {t} := {fn} {v.atom()};")
                    self.write_place(recv, Val(f"{t}.2", v.ty))
                    return Val(f"{t}.1", "u32" if name == "next_u32" else "u64")
                if name == "fill_bytes" and len(args) == 1:
                    d = self.dyn_of(args[0])
                    if d is None or d.off != "0" or d.len not in (f"{d.base.lean}.length", getattr(d.base, "len_name", None)):
                        raise Unsupported("fill_bytes into part of a buffer")
                    fuel = f"fuel_{len(self.fuels) + 1}"
                    self.fuels.append(fuel)
                    t = self.fresh("r")
                    self.emit(f"let {t} := Rngs.Ext.{wr['block']}.fill_bytes {wr['C']} {fuel} {v.atom()} {d.base.lean};")
                    self.emit(f"let {d.base.lean} := {t}.1;")
                    self.write_place(recv, Val(f"{t}.2", v.ty))
                    return Val("()", "unit")
        return base_mcall(self, e, want)
    C.mcall = mcall

    def read_place(self, e, want=None):
        wr = getattr(self.u, "wrap", None)
        if wr is not None and e[0] == "field" and e[2] in ("core",) and e[1][0] == "field" and e[1][2] == "0":
            v = self.expr(e[1])
            if v.ty == ("named", "@blockrng"):
                return Val(f"{v.atom()}.core", ("named", "@coreval"))
        return base_read(self, e, want)
    C.read_place = read_place

    def binop(self, op, l, r, want, pre=None):
        wr = getattr(self.u, "wrap", None)
        if wr is not None and pre is None and op in ("==", "!="):
            a = self.expr(l)
            n0 = len(self.lines)
            b = self.expr(r, a.ty if a.ty in INT or a.ty == "nat" else None)
            a = self.pin(a, n0)
            if a.ty == ("named", "@coreval") and b.ty == ("named", "@coreval"):
                t = f"Rngs.Ext.{wr['core_unit']}.eq {a.atom()} {b.atom()}"      # the core's own PartialEq
                return Val(t if op == "==" else f"!({t})", "bool")
            return base_binop(self, op, None, None, want, pre=(a, b))
        return base_binop(self, op, l, r, want, pre)
    C.binop = binop

_install3()

def build_wrapper_units(repo, report, avail):
    """`avail`: fully qualified names of the definitions translated so far (cores, rand_core)"""
    import extract_units
    specs = [("rand_hc/src/hc128.rs", "Hc128Rng", "Hc128Core", 32, "BlockRng", "Hc128.Core"),
             ("rand_isaac/src/isaac.rs", "IsaacRng", "IsaacCore", 32, "BlockRng", "Isaac.Core 32"),
             ("rand_isaac/src/isaac64.rs", "Isaac64Rng", "Isaac64Core", 64, "BlockRng64", "Isaac.Core 64")]
    for path, wname, cname, w, bname, core_lean in specs:
        try:
            f = rsfront.load(os.path.join(repo, path))
            st = f.structs.get(wname)
            inner = "".join(t[1] for t in st[0][1]) if st and len(st) == 1 else None
            if inner != f"{bname}<{cname}>":
                raise Unsupported(f"{wname} is not a newtype of {bname}<{cname}>")
            consts, vals = extract_units.file_consts(f)
            if cname != "Hc128Core":
                vals = dict(vals)
            TYCTX["aliases"], TYCTX["consts"] = {k: "".join(t[1] for t in toks) for k, toks in f.types.items()}, vals
            # length of the core's results buffer and of its seed
            cms, cali = extract_units.methods_of(f, cname)
            res = cali.get("Self::Results", "")
            m = re.match(r"^\[\w+;(.+)\]$", res)
            n = rs2lean.const_int(m.group(1)) if m else (vals.get("RAND_SIZE") if res.startswith("IsaacArray<") else None)
            seed = cali.get("Self::Seed", "")
            m = re.match(r"^\[u8;(.+)\]$", seed)
            slen = rs2lean.const_int(m.group(1)) if m else None
            if n is None or slen is None:
                raise Unsupported(f"results / seed type of {cname}")
            ce, blk, sd = f"Rngs.Ext.{cname}", f"Rngs.Ext.RandCore{bname}", "Rngs.Ext.RandCoreSeedable"
            Cterm = f"(⟨{n}, {ce}.generate⟩ : BlockCore ({core_lean}) {w})"
            need = [f"{ce}.generate", f"{ce}.from_seed", f"{ce}.eq"] + [f"{blk}.{x}" for x in ("next_u32", "next_u64", "fill_bytes", "index", "from_seed", "from_rng", "try_from_rng")]
            missing = [x for x in need if x not in avail]
            # the core's SeedableRng: its own functions where it defines them, rand_core's defaults otherwise
            own = {k for k in ("seed_from_u64", "from_rng", "try_from_rng") if k in cms}
            t_seed = f"{ce}.seed_from_u64" if "seed_from_u64" in own else f"({sd}.seed_from_u64 {slen} {ce}.from_seed)"
            t_rng = f"{ce}.from_rng" if "from_rng" in own else f"({sd}.from_rng {slen} {ce}.from_seed)"
            t_try = f"{ce}.try_from_rng" if "try_from_rng" in own else f"({sd}.try_from_rng {slen} {ce}.from_seed)"
            for k in own:
                if f"{ce}.{k}" not in avail:
                    missing.append(f"{ce}.{k}")
            ms = {}
            for trait, ty, fns, consts_ in f.impls:
                if ty == wname and trait in ("RngCore", "SeedableRng", "PartialEq", "::core::cmp::PartialEq", "Clone", "::core::clone::Clone"):
                    ms.update({k: v for k, v in fns.items() if v.body is not None})
            u = RcUnit(wname, StructInfo(wname, f"{bname} ({core_lean})", {"0": (("named", "@blockrng"), None)}), ms,
                       f"Rngs.Ext.{wname}", [], [], fn_lead={"from_rng": (["{ρ : Type}"], []), "try_from_rng": (["{ρ : Type}"], [])})
            u.wrap = dict(block=f"RandCore{bname}", C=Cterm, core_unit=cname, n=n, w=w, seed_len=slen, core_lean=core_lean, bname=bname)
            u.newtype = wname
            u.fn_terms = {f"{bname}::from_seed": ("bytes1", f"{blk}.from_seed {Cterm} {ce}.from_seed", ("named", "Self")),
                          f"{bname}::new": ("plain1", f"{blk}.new {Cterm}", ("named", "Self")),
                          f"{bname}::seed_from_u64": ("plain1", f"{blk}.seed_from_u64 {Cterm} {t_seed}", ("named", "Self"))}
            u.src_callees = {f"{bname}::from_rng": f"{blk}.from_rng {Cterm} {t_rng}", f"{bname}::try_from_rng": f"{blk}.try_from_rng {Cterm} {t_try}"}
            u.shape, u.seed_len, u.file = ("wrapper", w), slen, path
            if missing:
                report[wname] = dict(file=path, error=f"depends on {missing[0]}, which is not translated")
                continue
            yield u, ["next_u32", "next_u64", "fill_bytes", "from_seed", "seed_from_u64", "from_rng", "try_from_rng", "eq"]
        except Exception as e:
            report[wname] = dict(error=repr(e))

# ------------------------------------------------------------------ theorems: BlockRng's SeedableRng impl, wrappers
def _block_seedable(G, M, w):
    E = f"Ext.{G}"
    L = f"∀ {{σ : Type}} (c : BlockCore σ {w})"
    LR = f"∀ {{σ ρ : Type}} (c : BlockCore σ {w})"
    m = (lambda fn: f"(match f fill src with | (.ok v, s) => (.ok ({M}.new c v), s) | (.error e, s) => (.error e, s))")
    return {
        "from_seed": (f"{L} (f : List U8 → σ) (seed : List U8), {E}.from_seed c f seed = {M}.new c (f seed)", ["C09"],
                      f"intros\n  simp only [{E}.from_seed, ExtTie.{G}.new]"),
        "seed_from_u64": (f"{L} (f : U64 → σ) (x : U64), {E}.seed_from_u64 c f x = {M}.new c (f x)", ["C09"],
                          f"intros\n  simp only [{E}.seed_from_u64, ExtTie.{G}.new]"),
        "from_rng": (f"{LR} (f : TryFill ρ → ρ → Except SrcErr σ × ρ) (fill : TryFill ρ) (src : ρ), {E}.from_rng c f fill src = {m('from_rng')}",
                     ["C09"], f"intros\n  simp only [{E}.from_rng, ExtTie.{G}.new]"),
        "try_from_rng": (f"{LR} (f : TryFill ρ → ρ → Except SrcErr σ × ρ) (fill : TryFill ρ) (src : ρ), {E}.try_from_rng c f fill src = {m('try_from_rng')}",
                         ["C09"], f"intros\n  simp only [{E}.try_from_rng, ExtTie.{G}.new]"),
    }
RC_THEOREMS["RandCoreBlockRng"].update(_block_seedable("RandCoreBlockRng", "BlockRng", 32))
RC_THEOREMS["RandCoreBlockRng64"].update(_block_seedable("RandCoreBlockRng64", "BlockRng64", 64))

def wrapper_theorems(u, done):
    wr = u.wrap
    G, E, B, Cn, w, n, slen = u.name, f"Ext.{u.name}", wr["bname"], wr["core_unit"], wr["w"], wr["n"], wr["seed_len"]
    blk = f"RandCore{B}"
    C = wr["C"].replace("Rngs.Ext.", "Ext.")
    hc = G == "Hc128Rng"
    MC = "Hc128.blockCore" if hc else f"Isaac.blockCore{w}"
    gen = "Hc128.generate" if hc else f"Isaac.generate Isaac.params{w}"
    szok = "BlockRefine.hc128_sizeOK" if hc else f"BlockRefine.isaac{w}_sizeOK"
    have_c = (f"have hg : Ext.{Cn}.generate = {gen} := by\n    funext st r\n    exact ExtTie.{Cn}.generate st r\n"
              f"  have hc : {C} = {MC} := by\n    show _ = (⟨{n}, {gen}⟩ : BlockCore _ {w})\n    rw [hg]")
    M = {"next_u32": "Hc128.nextU32 st" if hc else f"{B}.nextU32 {MC} st", "next_u64": "Hc128.nextU64 st" if hc else f"{B}.nextU64 {MC} st"}
    fill = (lambda x: f"(Hc128.fill dest.length st)" if hc else f"({B}.fillBytes {MC} dest.length st)")
    th, proofs = [], {}
    def add(fn, stmt, props, proof):
        if fn in done:
            th.append((f"{G}.{fn}", stmt, props, fn)); proofs[f"{G}.{fn}"] = proof
    T = u.sinfo.lean
    for fn in ("next_u32", "next_u64"):
        add(fn, f"∀ (st : {T}), st.results.size = {n} → {E}.{fn} st = {M[fn]}", ["C05", "C02" if hc else "C03"],
            f"intro st h\n  {have_c}\n  simp only [{E}.{fn}]\n  rw [ExtTie.{blk}.{fn} _ st h, hc]\n  first | done | rfl")
    add("fill_bytes", f"∀ (st : {T}) (dest : List U8), st.results.size = {n} → {E}.fill_bytes (dest.length + 1) st dest = "
                      f"({fill(0)}.1 ++ dest.drop {fill(0)}.1.length, {fill(0)}.2)", ["C05"],
        f"intro st dest h\n  {have_c}\n  have hs : BlockRefine.SizeOK {C} := hc ▸ {szok}\n  simp only [{E}.fill_bytes]\n"
        f"  rw [ExtTie.{blk}.fill_bytes _ _ st dest hs h, hc]\n  first | done | rfl")
    fs = "Hc128.fromSeed" if hc else f"Isaac.fromSeed{w}"
    cfs = f"ExtTie.{Cn}.from_seed"
    add("from_seed", f"∀ seed, {E}.from_seed seed = {fs} seed", ["C09"],
        f"intro seed\n  {have_c}\n  simp only [{E}.from_seed, ExtTie.{blk}.from_seed, {cfs}, hc]\n  first | done | rfl")
    if not hc:
        add("seed_from_u64", f"∀ x, {E}.seed_from_u64 x = Isaac.seedFromU64_{w} x", ["C09"],
            f"intro x\n  {have_c}\n  simp only [{E}.seed_from_u64, ExtTie.{blk}.seed_from_u64, ExtTie.{Cn}.seed_from_u64, hc]\n  first | done | rfl")
    for fn, mfn in (("from_rng", "fromRng"), ("try_from_rng", "tryFromRng")):
        if hc:
            add(fn, f"∀ {{ρ : Type}} (fill : TryFill ρ) (src : ρ), {E}.{fn} fill src = Hc128.fromRng fill src", ["C09"],
                f"intro ρ fill src\n  {have_c}\n  have hf : Ext.{Cn}.from_seed = Hc128.fromSeedCore := funext {cfs}\n"
                f"  simp only [{E}.{fn}, ExtTie.{blk}.{fn}, ExtTie.RandCoreSeedable.{fn}, hc, hf, fromRngDefault, Hc128.fromRng, Hc128.fromSeed]\n"
                f"  cases hx : fill src 32 with\n  | mk r s => cases r <;> rfl")
        else:
            add(fn, f"∀ {{ρ : Type}} (fill : TryFill ρ) (src : ρ), {E}.{fn} fill src = Isaac.{mfn}{w} fill src", ["C09"],
                f"intro ρ fill src\n  {have_c}\n  have hf : @Ext.{Cn}.{fn} ρ = Isaac.coreFromRng{w} := by funext fill src; exact ExtTie.{Cn}.{fn} fill src\n"
                f"  simp only [{E}.{fn}, ExtTie.{blk}.{fn}, hc, hf, Isaac.coreFromRng{w}, Isaac.{mfn}{w}]\n"
                f"  cases hx : fill src (Isaac.RAND_SIZE * {w // 8}) with\n  | mk r s => cases r <;> rfl")
    if hc:
        add("eq", f"∀ a b, {E}.eq a b = Hc128.beq a b", ["C10"],
            f"intro a b\n  have he : Ext.{Cn}.eq = Hc128.Core.beq := by funext x y; exact ExtTie.{Cn}.eq x y\n"
            f"  simp only [{E}.eq, he, ExtTie.{blk}.index, Hc128.beq]\n  first | done | rfl | ac_rfl")
    return th, proofs

# ------------------------------------------------------------------ `loop { … break … }` around draws from a byte source
def _install4():
    C = RcFnTr
    base_body, base_expr_, base_dyn = C.body_to_lean, C.expr_, C.dyn_of

    def expr_(self, e, want=None):
        if e[0] == "repeat" and want is None and getattr(self.u, "byte_buffers", False):
            n = self.expr(e[2], "nat")
            x = self.expr(e[1], "u8")
            if n.lit is not None and x.ty == "u8" and x.lit is not None:
                # a byte array that is handed to a source: kept as a list (its length is static)
                return Val(f"List.replicate {n.lit} {x.atom()}", ("arr", "u8", n.lit))
        return base_expr_(self, e, want)
    C.expr_ = expr_

    def dyn_of(self, e):
        d = base_dyn(self, e)
        if d is None:
            x = e
            while x[0] in ("paren", "ref", "deref") or (x[0] == "mcall" and x[2] in ("as_mut", "as_ref") and not x[3]):
                x = x[2] if x[0] == "ref" else x[1]
            if x[0] == "path" and len(x[1]) == 1:
                v = self.lookup(x[1][0])
                if v is not None and isinstance(v.ty, tuple) and v.ty[0] == "arr" and v.ty[1] == "u8" and isinstance(v.ty[2], int) \
                        and v.elems is None and v.lean is not None:
                    return DynView(v, "0", f"{v.lean}.length")
        return d
    C.dyn_of = dyn_of

    def src_fill_stmt(self, s):
        """(buffer Var, fallible) when the statement is `rng.fill_bytes(buf.as_mut());` / `rng.try_fill_bytes(buf.as_mut())?;`"""
        if s[0] != "expr" or self.rng is None:
            return None
        e, q = s[1], False
        if e[0] == "try":
            e, q = e[1], True
        if e[0] == "mcall" and e[1] == ("path", [self.rng.name]) and e[2] in ("fill_bytes", "try_fill_bytes") and len(e[3]) == 1:
            if (e[2] == "try_fill_bytes") != q or q != self.rng_fallible:
                raise Unsupported("fill_bytes / try_fill_bytes does not match the result type")
            d = self.dyn_of(e[3][0])
            if d is None or d.off != "0" or d.len not in (f"{d.base.lean}.length", getattr(d.base, "len_name", None)):
                raise Unsupported("source filled into something other than a whole local buffer")
            return d.base
        return None
    C.src_fill_stmt = src_fill_stmt

    def loop_body(self, stmts, names):
        """the body of a `loop` as a step function: `(.ok (continue?, state), rng)` or the source's error"""
        rng = self.rng.lean
        for i, s in enumerate(stmts):
            buf = self.src_fill_stmt(s)
            if buf is not None:
                self.stmts(stmts[:i])
                bs, er = self.fresh("bytes"), self.fresh("err")
                n = buf.ty[2] if isinstance(buf.ty, tuple) and buf.ty[0] == "arr" and isinstance(buf.ty[2], int) else f"{buf.lean}.length"
                def g():
                    self.emit(f"let {buf.lean} := {bs};")
                    return self.loop_body(stmts[i + 1:], names)
                l2, r2 = self.sub(g)
                return (f"match fill {rng} {n} with | (.ok {bs}, {rng}) => {self.render(l2, r2)} | (.error {er}, {rng}) => (.error {er}, {rng})")
            if s[0] == "expr" and s[1][0] == "if" and any(x == ("break",) for x in s[1][2][0]):
                e = s[1]
                if e[3] is not None or e[2][0] != [("break",)] or e[2][1] is not None:
                    raise Unsupported("break inside a larger branch")
                self.stmts(stmts[:i])
                cv = self.expr(e[1], "bool")
                st = self.tuple_of(names)
                def g():
                    return self.loop_body(stmts[i + 1:], names)
                l2, r2 = self.sub(g)
                return f"if {cv.lean} then (.ok (false, {st}), {rng}) else {self.render(l2, r2)}"
            if s[0] in ("break", "continue", "return") or _contains_return(s):
                raise Unsupported(f"{s[0]} in a loop")
        self.stmts(stmts)
        return f"(.ok (true, {self.tuple_of(names)}), {rng})"
    C.loop_body = loop_body

    def body_to_lean(self, stmts, tail, ret_ty, selfkind):
        if self.rng is not None:
            for i, s in enumerate(stmts):
                if s[0] == "loop":
                    lstmts = s[1][0] + ([("expr", s[1][1])] if s[1][1] is not None else [])
                    self.stmts(stmts[:i])
                    names = self.assigned(lstmts, None)
                    for st_ in lstmts:
                        b = None
                        try:
                            b = self.src_fill_stmt(st_)
                        except Unsupported:
                            pass
                        if b is not None and not any((x is b) or (isinstance(x, str) and self.scope.get(x) is b) for x in names):
                            names.append(b)
                    fuel = f"fuel_{len(self.fuels) + 1}"
                    self.fuels.append(fuel)
                    pat, rng, er = self.tuple_of(names), self.rng.lean, self.fresh("err")
                    def gb():
                        return self.loop_body(lstmts, names)
                    lb, rb = self.sub(gb)
                    def gr():
                        return self.body_to_lean(stmts[i + 1:], tail, ret_ty, selfkind)
                    lr, rr = self.sub(gr)
                    bp = pat if pat.startswith("(") else f"({pat})"
                    return (f"match loopF {fuel} (fun {bp} {rng} => {self.render(lb, rb)}) {pat} {rng} with\n"
                            f"  | (.ok {pat}, {rng}) => {self.render(lr, rr)}\n  | (.error {er}, {rng}) => (.error {er}, {rng})")
        return base_body(self, stmts, tail, ret_ty, selfkind)
    C.body_to_lean = body_to_lean

_install4()

def build_unit_xorshift_src(repo, report):
    """XorShiftRng::from_rng / try_from_rng: the redraw loop around the byte source (the rest of the type is translated by the
    plain translator, extract_units.build_unit_xorshift)"""
    import extract_units
    f = rsfront.load(os.path.join(repo, "rand_xorshift/src/lib.rs"))
    lean, fields, shape = extract_units.shape_of(f.structs["XorShiftRng"])
    ms = {}
    for trait, ty, fns, consts in f.impls:
        if ty == "XorShiftRng" and trait == "SeedableRng":
            ms.update({k: v for k, v in fns.items() if k in ("from_rng", "try_from_rng") and v.body is not None})
    TYCTX["aliases"], TYCTX["consts"] = {}, {}
    u = RcUnit("XorShiftRng", StructInfo("XorShiftRng", lean, fields), ms, "Rngs.Ext.XorShiftRng", ["{ρ : Type}"], [])
    u.byte_buffers = True
    u.shape, u.seed_len, u.file = shape, 16, "rand_xorshift/src/lib.rs"
    return u, ["from_rng", "try_from_rng"]
