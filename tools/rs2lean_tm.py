"""rs2lean_tm.py — the monadic part of the translator (rand_jitter): functions that read the timer closure
`(self.timer)()` are translated into `Jitter.TM = StateT (List U64) Option` (the timer is the list of values it will
return; `tick` consumes one), `assert!` functions into `Option`.

What is abstracted, and how it is justified (DESIGN.md §3b, "Extension: rand_jitter"):
  * `black_box(x)` is the identity without observable effect (its definition in the file is compared token by token
    with the known one; otherwise calls of it are unknown calls);
  * dead-code elimination: a local variable whose value flows only into itself, into other dead variables or into a
    discarded `black_box(..)` is dead; statements that only update dead variables are dropped when they are free of
    effects and of panics (no timer read, no method call, no plain `+ - * / %`, no indexing; bounded `for` only);
    every eliminated variable is reported;
  * the scratch memory (`EcState.mem`, the `mem` parameter of `memaccess`, the local of `timer_stats`): a whole-file
    check that it is only ever updated in place by wrapping / bitwise operations at an index that is provably in
    bounds, passed on as `&mut` to a parameter for which the same holds, or read inside a discarded `black_box(..)`;
    then it is dropped from the translated state.  If the check fails the functions that touch it are Unsupported;
  * `trace! debug! info! warn! error!` (checked to be the crate's forwarders to `log`) and `debug_assert!` are skipped
    when their arguments contain no call; otherwise the function is Unsupported.
Anything not fully understood raises `Unsupported`."""
import re
import rsfront
from rsfront import Unsupported
from rs2lean import FnTr, Val, Var, Scope, Unit, StructInfo, parse_ty, lit_lean, lname, INT, lean_ty

LOG_MACROS = ("trace", "debug", "info", "warn", "error")
TIMER_ERRORS = ["NoTimer", "CoarseTimer", "NotMonotonic", "TinyVariations", "TooManyStuck"]
TRAIT_METHODS = {"Clone": {"clone"}, "RngCore": {"next_u32", "next_u64", "fill_bytes"}}
BLACK_BOX_BODY = "unsafe { let ret = ptr :: read_volatile ( & dummy ) ; mem :: forget ( dummy ) ; ret }"

# ------------------------------------------------------------------ AST utilities
def block_parts(b):
    """a block is (stmts, tail)"""
    return ([] if b is None else list(b[0])), (None if b is None else b[1])

def sub_exprs(e):
    """direct sub-expressions and sub-blocks of an expression: (exprs, blocks)"""
    k = e[0]
    if k in ("lit", "bool", "path", "str", "macro", "val"):
        return [], []
    if k in ("paren", "deref", "cast", "field", "try"):
        return [e[1]], []
    if k in ("un", "ref"):
        return [e[2]], []
    if k == "index":
        return [e[1], e[2]], []
    if k == "bin":
        return [e[2], e[3]], []
    if k == "mcall":
        return [e[1]] + list(e[3]), []
    if k == "call":
        return [e[1]] + list(e[2]), []
    if k == "if":
        return [e[1]], [b for b in (e[2], e[3]) if b is not None]
    if k == "block":
        return [], [(e[1], e[2])]
    if k in ("array", "tuple"):
        return list(e[1]), []
    if k == "repeat":
        return [e[1], e[2]], []
    if k == "struct":
        return [x for _, x in e[2]], []
    if k == "closure":
        return [e[2]], []
    if k == "range":
        return [x for x in (e[1], e[2]) if x is not None], []
    raise Unsupported(f"expression kind {k}")

def stmt_parts(s):
    """(exprs, blocks) of a statement"""
    k = s[0]
    if k == "let":
        return ([s[4]] if s[4] is not None else []), []
    if k == "const":
        return [s[3]], []
    if k == "assign":
        return [s[1], s[3]], []
    if k == "expr":
        return [s[1]], []
    if k == "for":
        return [s[2]], [s[3]]
    if k == "while":
        return [s[1]], [s[2]]
    if k == "loop":
        return [], [s[1]]
    if k == "return":
        return ([s[1]] if s[1] is not None else []), []
    if k in ("break", "continue", "fn"):
        return [], []
    raise Unsupported(f"statement kind {k}")

def walk_expr(e, f, fs=None):
    """pre-order over all expression nodes below e (into nested blocks); f(node); fs(statement) for nested statements"""
    f(e)
    es, bs = sub_exprs(e)
    for x in es:
        walk_expr(x, f, fs)
    for b in bs:
        walk_block(b, f, fs)

def walk_block(b, f, fs=None):
    st, tl = block_parts(b)
    for s in st:
        if fs:
            fs(s)
        es, bs = stmt_parts(s)
        for x in es:
            walk_expr(x, f, fs)
        for bb in bs:
            walk_block(bb, f, fs)
    if tl is not None:
        walk_expr(tl, f, fs)

def normalize_stmts(stmts):
    """value-less blocks (loop bodies, branches of an `if` in statement position): the tail expression becomes a statement"""
    def unit_block(b):
        st, tl = block_parts(b)
        st = normalize_stmts(st)
        if tl is not None:
            st = st + normalize_stmts([("expr", tl)])
        return (st, None)
    def unit_if(e):
        el = e[3]
        if el is not None:
            s2, t2 = block_parts(el)
            if not s2 and t2 is not None and t2[0] == "if":
                el = ([("expr", unit_if(t2))], None)
            else:
                el = unit_block(el)
        return ("if", e[1], unit_block(e[2]), el)
    out = []
    for s in stmts:
        k = s[0]
        if k == "for":
            out.append((k, s[1], s[2], unit_block(s[3])))
        elif k == "while":
            out.append((k, s[1], unit_block(s[2])))
        elif k == "loop":
            out.append((k, unit_block(s[1])))
        elif k == "expr" and s[1][0] == "if":
            out.append((k, unit_if(s[1])))
        elif k == "expr" and s[1][0] == "block":
            b = unit_block((s[1][1], s[1][2]))
            out.append((k, ("block", b[0], None)))
        else:
            out.append(s)
    return out

def strip(e):
    while e[0] == "paren":
        e = e[1]
    return e

def is_path(e, name=None):
    e = strip(e)
    return e[0] == "path" and len(e[1]) == 1 and (name is None or e[1][0] == name)

def is_self(e):
    return is_path(e, "self")

def is_timer_call(e):
    """`(self.timer)()`"""
    if e[0] != "call" or e[2]:
        return False
    f = strip(e[1])
    return f[0] == "field" and is_self(f[1]) and f[2] == "timer"

def toks_text(toks):
    return " ".join(t[1] for t in toks)

def macro_arg_exprs(args, macros):
    """the comma-separated arguments of a format-style macro, parsed as expressions (format string and `name =` skipped)"""
    out = []
    for part in rsfront.split_top(args):
        if not part:
            continue
        if part[0][0] == "str" and len(part) == 1:
            continue
        if len(part) > 2 and part[0][0] == "id" and part[1][1] == "=" and part[2][1] != "=":
            part = part[2:]
        out.append(rsfront.Parser(part, macros).parse_expr_all())
    return out

def has_call(e):
    found = []
    def f(x):
        if x[0] in ("call", "mcall", "macro", "closure", "try"):
            found.append(x)
    walk_expr(e, f)
    return bool(found)

def const_eval(e, env):
    e = strip(e)
    if e[0] == "lit":
        return e[1]
    if e[0] == "path" and len(e[1]) == 1 and e[1][0] in env:
        return env[e[1][0]]
    if e[0] == "bin" and e[1] in ("+", "-", "*", "/", "%", "<<", ">>"):
        a, b = const_eval(e[2], env), const_eval(e[3], env)
        if a is None or b is None:
            return None
        try:
            return {"+": a + b, "-": a - b, "*": a * b, "/": a // b if b else None, "%": a % b if b else None,
                    "<<": a << b, ">>": a >> b}[e[1]]
        except Exception:
            return None
    if e[0] == "cast":
        return const_eval(e[1], env)
    return None

# ------------------------------------------------------------------ purity of expressions in dropped code
PURE_METHODS = {"wrapping_add", "wrapping_sub", "wrapping_mul", "wrapping_neg", "rotate_left", "rotate_right"}

def droppable_expr(e, pure_fns, allow_index_of=()):
    """True when evaluating e has no effect and cannot panic (so that dropping it is sound): literals, variables,
    fields, bit operations, wrapping_* / rotate_*, casts, shifts by literals, calls of `black_box` and of the pure
    nested functions in `pure_fns`; indexing only of the names in allow_index_of with a literal index"""
    e = strip(e)
    k = e[0]
    if k in ("lit", "bool"):
        return True
    if k == "path":
        return len(e[1]) == 1
    if k == "field":
        return droppable_expr(e[1], pure_fns, allow_index_of)
    if k == "cast":
        return droppable_expr(e[1], pure_fns, allow_index_of)
    if k == "un":
        return e[1] == "!" and droppable_expr(e[2], pure_fns, allow_index_of)
    if k == "ref":
        return droppable_expr(e[2], pure_fns, allow_index_of)
    if k == "bin":
        if e[1] in ("^", "|", "&", "==", "!=", "<", ">", "<=", ">="):
            return droppable_expr(e[2], pure_fns, allow_index_of) and droppable_expr(e[3], pure_fns, allow_index_of)
        if e[1] in ("<<", ">>"):
            return strip(e[3])[0] == "lit" and strip(e[3])[1] < 8 and droppable_expr(e[2], pure_fns, allow_index_of)
        return False
    if k == "mcall":
        return e[2] in PURE_METHODS and not is_self(e[1]) and all(droppable_expr(x, pure_fns, allow_index_of) for x in [e[1]] + list(e[3]))
    if k == "call":
        f = strip(e[1])
        if f[0] == "path" and len(f[1]) == 1 and (f[1][0] == "black_box" or f[1][0] in pure_fns):
            return all(droppable_expr(x, pure_fns, allow_index_of) for x in e[2])
        return False
    if k == "index":
        b = strip(e[1])
        return scratch_name(b) in allow_index_of and strip(e[2])[0] == "lit"
    return False

def scratch_name(e):
    """name under which a place expression is looked up in the scratch set: `x` for a variable, `.f` for a field"""
    e = strip(e)
    if e[0] == "ref":
        return scratch_name(e[2])
    if e[0] == "deref":
        return scratch_name(e[1])
    if e[0] == "path" and len(e[1]) == 1:
        return e[1][0]
    if e[0] == "field":
        return "." + e[2]
    return None

# ------------------------------------------------------------------ whole-file analysis
class JFile:
    """rand_jitter/src/lib.rs: items, the checks that justify the abstractions, kinds of the methods"""
    def __init__(self, path, error_path=None):
        self.f = rsfront.load(path)
        f = self.f
        self.problems = []             # reasons why the whole unit cannot be translated
        # ---- log macros: exactly the forwarding shape
        self.log_ok = set()
        for m in LOG_MACROS:
            arms = f.macros.get(m)
            want = f"# [ cfg ( feature = \"log\" ) ] {{ log :: {m} ! ( $ ( $ x ) * ) }}"
            if arms and len(arms) == 1 and toks_text(arms[0][0]) == "$ ( $ x : tt ) *" and toks_text(arms[0][1]) == want:
                self.log_ok.add(m)
        self.macros = {k: v for k, v in f.macros.items() if k not in LOG_MACROS}
        # ---- black_box
        bb = f.fns.get("black_box")
        self.black_box_ok = bb is not None and bb.body is not None and toks_text(bb.body) == BLACK_BOX_BODY and len(bb.params) == 1
        # ---- constants
        self.consts = {}
        for _ in range(3):
            for n, (tt, et) in f.consts.items():
                try:
                    v = const_eval(rsfront.Parser(et, {}).parse_expr_all(), self.consts)
                except Exception:
                    v = None
                if v is not None:
                    self.consts[n] = v
        self.const_ty = {}
        for n, (tt, et) in f.consts.items():
            if n in self.consts:
                t = parse_ty("".join(x[1] for x in tt))
                if t in INT or t == "nat":
                    self.const_ty[n] = t
        # ---- methods
        self.methods, self.impl_of = {}, {}
        dup = set()
        for trait, ty, fns, consts in f.impls:
            if trait is not None and trait.endswith("Debug"):
                continue
            for k, v in fns.items():
                if v.body is None:
                    continue
                key = (ty, k)
                if key in self.methods:
                    dup.add(key)
                self.methods[key] = v
                self.impl_of[key] = trait
        for k, v in f.fns.items():
            if v.body is not None:
                self.methods[(None, k)] = v
        if dup:
            self.problems.append(f"functions defined twice: {sorted(dup)}")
        # trait impls of JitterRng: an override of a defaulted method (Clone::clone_from, …) changes what the trait does
        self.trait_extra = {}
        for trait, ty, fns, consts in f.impls:
            if ty == "JitterRng" and trait in TRAIT_METHODS:
                extra = sorted(set(k for k, v in fns.items() if v.body is not None) - TRAIT_METHODS[trait])
                if extra:
                    for k in TRAIT_METHODS[trait]:
                        self.trait_extra[k] = (f"impl {trait} also defines {', '.join(extra)}: the trait's other operations are no longer "
                                               f"the defaults built from `{k}` that the model assumes")
        # ---- conditionally compiled functions: `#[cfg(..)]` / `#[cfg_attr(..)]` directly above a `fn`
        self.cfg_fns = {}
        lines = open(path).read().split("\n")
        for i, l in enumerate(lines):
            m = re.match(r"^\s*(?:pub(?:\([^)]*\))?\s+)?(?:const\s+|unsafe\s+)*fn\s+(\w+)", l)
            if not m:
                continue
            j = i - 1
            while j >= 0 and (lines[j].strip().startswith("#[") or lines[j].strip().startswith("//") or not lines[j].strip()):
                if re.match(r"^\s*#\[\s*cfg", lines[j]):
                    self.cfg_fns[m.group(1)] = lines[j].strip()
                if not lines[j].strip():
                    break
                j -= 1
        # ---- timer errors
        self.errors_ok = False
        if error_path:
            try:
                txt = re.sub(r"//[^\n]*", "", open(error_path).read())
                m = re.search(r"pub\s+enum\s+TimerError\s*\{(.*?)\}", txt, re.S)
                names = re.findall(r"^\s*([A-Za-z_]\w*)\s*(?:=[^,]*)?,", re.sub(r"#\[[^\]]*\]", "", m.group(1)), re.M) if m else []
                self.errors_ok = names[:5] == TIMER_ERRORS and all(n.startswith("__") for n in names[5:])
            except Exception:
                self.errors_ok = False
        # ---- struct shapes (positional: a consistent renaming of fields is harmless)
        self.fieldmap = {}
        self.struct_shape("JitterRng", [("u64", "data", None), ("u8", "rounds", 8), (("named", "F"), None, "timer"),
                                        ("u16", "memPrevIndex", 16), ("bool", "halfUsed", None)], "Jitter.Rng")
        self.struct_shape("EcState", [("u64", "prevTime", None), ("i32", "lastDelta", None), ("i32", "lastDelta2", None),
                                      (("arr", "u8"), None, "scratch")], "Jitter.Ec")
        # ---- parsed bodies
        self.bodies, self.parse_errors = {}, {}
        for key, fn in self.methods.items():
            try:
                body = self.parse_fn_body(fn)
                # `unsafe { … }` is kept by the front end as an opaque token list (one idiom of rand_isaac is mapped by
                # rs2lean); nothing in this analysis can look inside it, so the function counts as not understood
                if '("unsafe",' in repr(body) or "('unsafe'," in repr(body):
                    raise Unsupported("unsafe block")
                self.bodies[key] = body
            except Unsupported as e:
                self.parse_errors[key] = str(e)
            except Exception as e:
                self.parse_errors[key] = f"parser error {e!r}"
        # nested pure fns (lfsr in lfsr_time)
        self.nested = {}
        for key, (st, tl) in self.bodies.items():
            for s in st:
                if s[0] == "fn":
                    self.nested[s[1].name] = (key, s[1])
        self.scratch_analysis()

    def parse_fn_body(self, fn):
        toks = fn.body
        for i, t in enumerate(toks):
            if t == ("p", "#") and i + 1 < len(toks) and toks[i + 1][1] in ("[", "!"):
                j = i + 1 if toks[i + 1][1] == "[" else i + 2
                c = rsfront.match_close(toks, j)
                head = toks[j + 1][1] if j + 1 < c else ""
                if head not in ("inline", "allow", "doc", "rustfmt", "warn", "deny", "must_use"):
                    raise Unsupported(f"attribute #[{toks_text(toks[j + 1:c])[:60]}] inside a function body (conditional compilation is not modelled)")
        rsfront._expansion_counter[0] = 0
        st, tl = rsfront.parse_body(toks, self.macros)
        return normalize_stmts(st), tl

    def struct_shape(self, name, want, lean):
        fs = self.f.structs.get(name)
        if fs is None:
            self.problems.append(f"struct {name} not found")
            return
        got = [(n, parse_ty("".join(t[1] for t in tt))) for n, tt in fs]
        ok = len(got) == len(want)
        m = {}
        if ok:
            for (n, ty), (wty, proj, extra) in zip(got, want):
                if wty == ("arr", "u8"):
                    if not (isinstance(ty, tuple) and ty[0] == "arr" and ty[1] == "u8"):
                        ok = False
                    m[n] = dict(ty=ty, proj=None, kind="scratch")
                elif extra == "timer":
                    if not (isinstance(ty, tuple) and ty[0] == "named"):
                        ok = False
                    m[n] = dict(ty=ty, proj=None, kind="timer")
                else:
                    if ty != wty:
                        ok = False
                    m[n] = dict(ty=ty, proj=proj, kind="nat" if extra else "plain", width=extra)
        if not ok:
            self.problems.append(f"struct {name} has fields {[(n, str(t)) for n, t in got]}; the model's {lean} expects the types "
                                 f"{[str(w[0]) for w in want]} in this order")
            return
        self.fieldmap[name] = m

    # ---------------------------------------------------------------- scratch memory
    def scratch_analysis(self):
        """greatest set S of places (fields `.f`, parameters (fn, i), locals (fn, name)) such that every occurrence is an
        in-place wrapping/bitwise update at an in-bounds index, an argument bound to a parameter in S, a discarded
        black_box(..) read, or the constant initialisation"""
        cand = {}      # id -> description ; ids: (".f",) | ("param", key, idx, name) | ("local", key, name)
        self.arr_len = {}
        for sname, m in self.fieldmap.items():
            for n, d in m.items():
                if d["kind"] == "scratch":
                    cand[("field", n)] = f"{sname}.{n}"
                    self.arr_len[("field", n)] = d["ty"][2]
        for key, fn in self.methods.items():
            k = 0
            for p in fn.params:
                if p[0] == "self":
                    continue
                txt = [t[1] for t in p[1]]
                ty = parse_ty("".join(txt))
                if txt[:2] == ["&", "mut"] and isinstance(ty, tuple) and ty[0] == "arr" and ty[1] == "u8":
                    cand[("param", key, k, p[0])] = f"{key[1]}({p[0]})"
                    self.arr_len[("param", key, k, p[0])] = ty[2]
                k += 1
            if key in self.bodies:
                for s in self.bodies[key][0]:
                    if s[0] == "let" and s[1][0] == "name" and s[4] is not None and strip(s[4])[0] == "repeat":
                        n = const_eval(strip(s[4])[2], self.consts)
                        if strip(strip(s[4])[1])[0] == "lit" and (n is None or n > 64):
                            cand[("local", key, s[1][1])] = f"{key[1]}:{s[1][1]}"
                            e = strip(s[4])[2]
                            self.arr_len[("local", key, s[1][1])] = e[1][0] if is_path(e) else n
        self.why_not = {}
        S = set(cand)
        # unparsable functions that mention a candidate's name: nothing is known about them
        for key, msg in self.parse_errors.items():
            if key == (None, "black_box") and self.black_box_ok:
                continue
            body = self.methods[key].body
            names = {t[1] for t in body}
            fields = {body[i + 1][1] for i in range(len(body) - 1) if body[i][1] == "."}
            for c in list(S):
                hit = (c[1] in fields) if c[0] == "field" else (c[-1] in names and c[1] == key)
                if hit:
                    S.discard(c); self.why_not[c] = f"{key[1]} could not be parsed ({msg})"
        changed = True
        while changed:
            changed = False
            for key in self.bodies:
                bad = self.scratch_uses(key, S)
                for c, why in bad.items():
                    if c in S:
                        S.discard(c); self.why_not[c] = why; changed = True
        self.scratch = S
        self.scratch_desc = {c: cand[c] for c in S}

    def resolve(self, key, name):
        """candidate id of a scratch_name inside function `key`"""
        if name is None:
            return None
        if name.startswith("."):
            return ("field", name[1:])
        fn = self.methods[key]
        k = 0
        for p in fn.params:
            if p[0] == "self":
                continue
            if p[0] == name:
                return ("param", key, k, name)
            k += 1
        return ("local", key, name)

    def callee_key(self, key, e):
        """the file function called by expression e (mcall on self / Self::f / f), or None"""
        if e[0] == "mcall" and is_self(e[1]):
            for (ty, n) in self.methods:
                if n == e[2] and ty == key[0]:
                    return (ty, n)
        if e[0] == "call":
            f = strip(e[1])
            if f[0] == "path":
                if len(f[1]) == 1 and (None, f[1][0]) in self.methods:
                    return (None, f[1][0])
                if len(f[1]) == 2 and f[1][0] in ("Self", key[0]) and (key[0], f[1][1]) in self.methods:
                    return (key[0], f[1][1])
        return None

    def scratch_uses(self, key, S):
        """{candidate: reason} for the candidates with a use in `key` that is not one of the allowed forms"""
        bad = {}
        st, tl = self.bodies[key]
        allowed = set()        # ids of AST nodes (occurrences) that are in an allowed position
        pure_fns = set(self.nested)
        def occ(e):
            c = self.resolve(key, scratch_name(e))
            return c if c in S else None
        def mark(e):
            walk_expr(e, lambda x: allowed.add(id(x)))
        def visit_stmts(stmts):
            for i, s in enumerate(stmts):
                if s[0] == "assign" and strip(s[1])[0] == "index" and occ(strip(s[1])[1]):
                    c = occ(strip(s[1])[1])
                    why = self.update_ok(key, stmts, i, c)
                    if why:
                        bad[c] = why
                    else:
                        mark(s[1]); mark(s[3])
                elif s[0] == "expr" and s[1][0] == "call" and is_path(s[1][1], "black_box") and len(s[1][2]) == 1 and self.black_box_ok:
                    a = s[1][2][0]
                    names = set()
                    walk_expr(a, lambda x: names.add(scratch_name(x)) if x[0] in ("path", "field") else None)
                    idx_ok = {n for n in names if self.resolve(key, n) in S}
                    if droppable_expr(a, pure_fns, idx_ok) and self.lit_indices_in_bounds(key, a):
                        mark(a)
                elif s[0] == "let" and s[1][0] == "name" and self.resolve(key, s[1][1]) in S and s[4] is not None:
                    mark(s[4])
                es, bs = stmt_parts(s)
                for b in bs:
                    visit_stmts(block_parts(b)[0])
                for e in es:
                    walk_expr(e, visit_e)
        def visit_e(e):
            if e[0] in ("call", "mcall"):
                ck = self.callee_key(key, e)
                args = e[2] if e[0] == "call" else e[3]
                if ck is not None:
                    for i, a in enumerate(args):
                        c = occ(a) if strip(a)[0] in ("ref", "path", "field") else None
                        pid = next((x for x in S if x[0] == "param" and x[1] == ck and x[2] == i), None)
                        if c is not None and pid is not None:
                            mark(a)
                        elif pid is not None:
                            bad[pid] = f"{ck[1]} is called from {key[1]} with an argument that is not scratch memory"
            if e[0] == "struct":
                for n, x in e[2]:
                    if ("field", n) in S and strip(x)[0] == "repeat" and strip(strip(x)[1])[0] == "lit":
                        mark(x)
            if e[0] in ("if", "block"):
                for b in sub_exprs(e)[1]:
                    visit_stmts(block_parts(b)[0])
        visit_stmts(st)
        if tl is not None:
            walk_expr(tl, visit_e)
        # every remaining occurrence is a live use
        def check(x):
            if x[0] in ("path", "field") and id(x) not in allowed:
                c = occ(x)
                if c is not None and not (c[0] == "field" and x[0] == "path"):
                    bad.setdefault(c, f"{self.desc(c)} is used in {key[1]} outside an in-place update / black_box")
        walk_block((st, tl), check)
        return bad

    def desc(self, c):
        return c[1] if c[0] == "field" else c[-1]

    def lit_indices_in_bounds(self, key, e):
        ok = [True]
        def f(x):
            if x[0] == "index":
                c = self.resolve(key, scratch_name(x[1]))
                n = self.arr_len.get(c)
                n = self.consts.get(n, n) if isinstance(n, str) else n
                if not (strip(x[2])[0] == "lit" and isinstance(n, int) and strip(x[2])[1] < n):
                    ok[0] = False
        walk_expr(e, f)
        return ok[0]

    def update_ok(self, key, stmts, i, c):
        """None when `X[idx] = rhs` / `X[idx] op= rhs` can be dropped, else the reason"""
        s = stmts[i]
        place, op, rhs = strip(s[1]), s[2], s[3]
        name = scratch_name(place[1])
        if op is not None and op not in ("^", "|", "&"):
            return (f"the scratch memory is updated with `{op}=`, which can overflow (a panic in builds with overflow checks); "
                    "only wrapping / bitwise updates can be dropped")
        if not droppable_expr(rhs, set(), {name}) and not self.rhs_ok(rhs, name, place[2]):
            return "the value stored into the scratch memory is not built from wrapping / bitwise operations only"
        idx = strip(place[2])
        n = self.arr_len.get(c)
        nval = self.consts.get(n, n) if isinstance(n, str) else n
        if idx[0] == "lit":
            return None if isinstance(nval, int) and idx[1] < nval else "literal index out of bounds"
        if not is_path(idx):
            return "the index of the scratch update is not a variable or literal"
        v = idx[1][0]
        # nearest preceding assignment of v in the same block must be `v = (..) % LEN`
        for j in range(i - 1, -1, -1):
            t = stmts[j]
            assigned = (t[0] == "assign" and is_path(t[1], v)) or (t[0] == "let" and t[1] == ("name", v))
            if assigned:
                r = strip(t[3] if t[0] == "assign" else t[4])
                if (t[0] != "assign" or t[2] is None) and r[0] == "bin" and r[1] == "%":
                    m = strip(r[3])
                    mv = const_eval(m, self.consts)
                    if mv is not None and isinstance(nval, int) and 0 < mv <= nval and not has_call(r[2]):
                        return None
                return f"index `{v}` is not reduced modulo the length of the scratch memory"
            mentions = []
            walk_block(([t], None), lambda x: mentions.append(1) if is_path(x, v) and x[0] == "path" else None)
            if mentions and t[0] not in ("assign",):
                return f"index `{v}`: cannot see that it is in bounds"
        return f"index `{v}`: cannot see that it is in bounds"

    def rhs_ok(self, rhs, name, idx):
        """rhs with reads of the same scratch element allowed: X[idx].wrapping_add(1) etc."""
        def ok(e):
            e = strip(e)
            if e[0] == "index":
                return scratch_name(e[1]) == name and strip(e[2]) == strip(idx)
            if e[0] in ("lit",):
                return True
            if e[0] == "path":
                return len(e[1]) == 1
            if e[0] == "mcall":
                return e[2] in PURE_METHODS and ok(e[1]) and all(ok(a) for a in e[3])
            if e[0] == "bin":
                return e[1] in ("^", "|", "&") and ok(e[2]) and ok(e[3])
            if e[0] == "un":
                return e[1] == "!" and ok(e[2])
            if e[0] == "cast":
                return ok(e[1])
            return False
        return ok(rhs)

    def scratch_params(self, key):
        return {c[2] for c in self.scratch if c[0] == "param" and c[1] == key}

    # ---------------------------------------------------------------- body preparation
    def prepare(self, key):
        """body of `key` with scratch memory, dead code, log macros and debug assertions removed;
        returns ((stmts, tail), notes)"""
        if key in self.parse_errors:
            raise Unsupported(self.parse_errors[key])
        notes = dict(eliminated=[], scratch=[], skipped_macros=[])
        st, tl = self.bodies[key]
        st = [s for s in st if s[0] != "fn"]
        st, tl = self.drop_scratch(key, st, tl, notes)
        st, tl = self.drop_macros(key, st, tl, notes)
        st, tl = self.dce(key, st, tl, notes)
        return (st, tl), notes

    def touches_failed_scratch(self, key, x):
        n = scratch_name(x) if x[0] in ("path", "field") else None
        c = self.resolve(key, n) if n else None
        if c is not None and c not in self.scratch and c in self.why_not and not (c[0] == "field" and x[0] == "path"):
            return c
        return None

    def drop_scratch(self, key, st, tl, notes):
        S = self.scratch
        used = set()
        def occ(e):
            c = self.resolve(key, scratch_name(e))
            return c if c in S else None
        def fix_e(e):
            """expression with scratch arguments / field initialisers removed"""
            k = e[0]
            if k in ("lit", "bool", "path", "str", "macro"):
                return e
            if k in ("call", "mcall"):
                ck = self.callee_key(key, e)
                args = list(e[2] if k == "call" else e[3])
                if ck is not None:
                    sp = self.scratch_params(ck)
                    keep = []
                    for i, a in enumerate(args):
                        if i in sp:
                            c = occ(a)
                            if c is None:
                                raise Unsupported(f"argument {i} of {ck[1]} is not scratch memory")
                            used.add(c)
                        else:
                            keep.append(fix_e(a))
                    args = keep
                else:
                    args = [fix_e(a) for a in args]
                return ("call", fix_e(e[1]), args) if k == "call" else ("mcall", fix_e(e[1]), e[2], args)
            if k == "struct":
                fs = []
                for n, x in e[2]:
                    if ("field", n) in S:
                        used.add(("field", n)); continue
                    fs.append((n, fix_e(x)))
                return ("struct", e[1], fs)
            if k == "if":
                return ("if", fix_e(e[1]), fix_b(e[2]), fix_b(e[3]) if e[3] is not None else None)
            if k == "block":
                b = fix_b((e[1], e[2]))
                return ("block", b[0], b[1])
            if k in ("paren", "deref", "try"):
                return (k, fix_e(e[1]))
            if k == "cast":
                return (k, fix_e(e[1]), e[2])
            if k == "field":
                return (k, fix_e(e[1]), e[2])
            if k in ("un", "ref"):
                return (k, e[1], fix_e(e[2]))
            if k == "index":
                return (k, fix_e(e[1]), fix_e(e[2]))
            if k == "bin":
                return (k, e[1], fix_e(e[2]), fix_e(e[3]))
            if k in ("array", "tuple"):
                return (k, [fix_e(x) for x in e[1]])
            if k == "repeat":
                return (k, fix_e(e[1]), fix_e(e[2]))
            if k == "range":
                return (k, fix_e(e[1]) if e[1] is not None else None, fix_e(e[2]) if e[2] is not None else None, e[3])
            if k == "closure":
                return (k, e[1], fix_e(e[2]))
            raise Unsupported(f"expression kind {k}")
        def fix_b(b):
            s2, t2 = block_parts(b)
            return fix_stmts(s2), (fix_e(t2) if t2 is not None else None)
        def fix_stmts(stmts):
            out = []
            for s in stmts:
                if s[0] == "assign" and strip(s[1])[0] == "index" and occ(strip(s[1])[1]):
                    used.add(occ(strip(s[1])[1])); continue
                if s[0] == "expr" and s[1][0] == "call" and is_path(s[1][1], "black_box") and self.black_box_ok and len(s[1][2]) == 1:
                    cs = []
                    walk_expr(s[1][2][0], lambda x: cs.append(occ(x)) if x[0] in ("path", "field") and occ(x) else None)
                    if cs:
                        used.update(cs); continue
                if s[0] == "let" and s[1][0] == "name" and self.resolve(key, s[1][1]) in S:
                    used.add(self.resolve(key, s[1][1])); continue
                k = s[0]
                if k == "let":
                    out.append((k, s[1], s[2], s[3], fix_e(s[4]) if s[4] is not None else None))
                elif k == "const":
                    out.append((k, s[1], s[2], fix_e(s[3])))
                elif k == "assign":
                    out.append((k, fix_e(s[1]), s[2], fix_e(s[3])))
                elif k == "expr":
                    out.append((k, fix_e(s[1])))
                elif k == "for":
                    out.append((k, s[1], fix_e(s[2]), fix_b(s[3])))
                elif k == "while":
                    out.append((k, fix_e(s[1]), fix_b(s[2])))
                elif k == "loop":
                    out.append((k, fix_b(s[1])))
                elif k == "return":
                    out.append((k, fix_e(s[1]) if s[1] is not None else None))
                else:
                    out.append(s)
            return out
        st2 = fix_stmts(st)
        tl2 = fix_e(tl) if tl is not None else None
        # nothing of the scratch memory (nor of a failed candidate) may remain
        def check(x):
            c = self.touches_failed_scratch(key, x)
            if c is not None:
                raise Unsupported(f"scratch memory check failed for {self.desc(c)}: {self.why_not[c]}")
            if x[0] in ("path", "field") and occ(x) and not (x[0] == "path" and occ(x)[0] == "field"):
                raise Unsupported(f"scratch memory {self.desc(occ(x))} used in an unexpected position")
        walk_block((st2, tl2), check)
        notes["scratch"] = sorted(self.scratch_desc[c] for c in used)
        return st2, tl2

    def drop_macros(self, key, st, tl, notes):
        def fix_stmts(stmts):
            out = []
            for s in stmts:
                e = s[1] if s[0] == "expr" else None
                if e is not None and e[0] == "macro":
                    name = e[1]
                    if name in LOG_MACROS or name in ("debug_assert", "debug_assert_eq", "debug_assert_ne"):
                        if name in LOG_MACROS and name not in self.log_ok:
                            raise Unsupported(f"{name}! is not the crate's forwarder to the log crate")
                        try:
                            args = macro_arg_exprs(e[2], self.macros)
                        except Unsupported as ex:
                            raise Unsupported(f"arguments of {name}! not understood: {ex}")
                        for a in args:
                            if has_call(a):
                                raise Unsupported(f"an argument of {name}! contains a call; whether it is evaluated depends on the "
                                                  f"build configuration ({'log feature / level' if name in LOG_MACROS else 'debug assertions'})")
                        notes["skipped_macros"].append(name + "!")
                        continue
                k = s[0]
                if k == "for":
                    out.append((k, s[1], s[2], fix_b(s[3])))
                elif k == "while":
                    out.append((k, s[1], fix_b(s[2])))
                elif k == "loop":
                    out.append((k, fix_b(s[1])))
                elif k == "expr" and e[0] == "if":
                    out.append((k, fix_if(e)))
                elif k == "expr" and e[0] == "block":
                    b = fix_b((e[1], e[2]))
                    out.append((k, ("block", b[0], b[1])))
                else:
                    out.append(s)
            return out
        def fix_if(e):
            el = e[3]
            if el is not None:
                s2, t2 = block_parts(el)
                if not s2 and t2 is not None and t2[0] == "if":
                    el = ([], fix_if(t2))
                else:
                    el = fix_b(el)
            return ("if", e[1], fix_b(e[2]), el)
        def fix_b(b):
            s2, t2 = block_parts(b)
            return fix_stmts(s2), t2
        st2 = fix_stmts(st)
        # a log macro anywhere else (expression position) is not understood
        def check(x):
            if x[0] == "macro" and x[1] != "assert":
                raise Unsupported(f"macro {x[1]}! in an unexpected position")
        walk_block((st2, tl), check)
        return st2, tl

    def dce(self, key, st, tl, notes):
        fn = self.methods[key]
        pure_fns = {n for n, (k, f) in self.nested.items() if k == key}
        params = {p[0] for p in fn.params}
        # candidates: locals declared exactly once at any depth by a plain `let`
        decl = {}
        def fs(s):
            if s[0] == "let" and s[1][0] == "name":
                decl[s[1][1]] = decl.get(s[1][1], 0) + 1
            if s[0] == "let" and s[1][0] == "tuple":
                for n in s[1][1]:
                    decl[n] = 99
            if s[0] == "for":
                for n in ([s[1][1]] if s[1][0] == "name" else s[1][1]):
                    decl[n] = 99
        walk_block((st, tl), lambda x: None, fs)
        D = {n for n, c in decl.items() if c == 1 and n not in params and n != "_"}
        def reads(e, acc):
            walk_expr(e, lambda x: acc.add(x[1][0]) if x[0] == "path" and len(x[1]) == 1 else None)
        def live_scan(stmts, tail, D):
            """variables of D with a live use"""
            live = set()
            def use(e):
                r = set(); reads(e, r); live.update(r & D)
            def vs(stmts):
                for s in stmts:
                    k = s[0]
                    if k == "let" and s[1][0] == "name" and s[1][1] in D:
                        if s[4] is not None and not droppable_expr(s[4], pure_fns):
                            live.add(s[1][1])
                        # reads in the initialiser flow into a dead variable: not live
                        continue
                    if k == "assign" and is_path(s[1]) and strip(s[1])[1][0] in D:
                        if not droppable_expr(s[3], pure_fns):
                            live.add(strip(s[1])[1][0])
                        continue
                    if k == "expr" and s[1][0] == "call" and is_path(s[1][1], "black_box") and self.black_box_ok \
                            and len(s[1][2]) == 1 and droppable_expr(s[1][2][0], pure_fns):
                        continue
                    if k == "for":
                        use(s[2]); vs(block_parts(s[3])[0])
                        if block_parts(s[3])[1] is not None:
                            use(block_parts(s[3])[1])
                        continue
                    if k == "expr" and s[1][0] == "if":
                        vif(s[1]); continue
                    es, bs = stmt_parts(s)
                    for e in es:
                        use(e)
                    for b in bs:
                        s2, t2 = block_parts(b)
                        vs(s2)
                        if t2 is not None:
                            use(t2)
            def vif(e):
                use(e[1])
                for b in (e[2], e[3]):
                    if b is None:
                        continue
                    s2, t2 = block_parts(b)
                    vs(s2)
                    if t2 is not None:
                        if t2[0] == "if":
                            vif(t2)
                        else:
                            use(t2)
            vs(stmts)
            if tail is not None:
                use(tail)
            return live
        while True:
            live = live_scan(st, tl, D)
            if not live:
                break
            D -= live
        if not D:
            return st, tl
        def drop(stmts):
            out = []
            for s in stmts:
                k = s[0]
                if k == "let" and s[1][0] == "name" and s[1][1] in D:
                    continue
                if k == "assign" and is_path(s[1]) and strip(s[1])[1][0] in D:
                    continue
                if k == "expr" and s[1][0] == "call" and is_path(s[1][1], "black_box") and self.black_box_ok and len(s[1][2]) == 1:
                    r = set(); reads(s[1][2][0], r)
                    if r & D and droppable_expr(s[1][2][0], pure_fns):
                        continue
                if k == "for":
                    s2, t2 = block_parts(s[3])
                    body = drop(s2)
                    if not body and t2 is None and s2 and droppable_range(s[2]):
                        continue          # bounded loop whose body only updated dead variables
                    out.append((k, s[1], s[2], (body, t2)))
                    continue
                if k == "expr" and s[1][0] == "if":
                    out.append((k, drop_if(s[1])))
                    continue
                out.append(s)
            return out
        def droppable_range(it):
            it = strip(it)
            return it[0] == "range" and it[1] is not None and it[2] is not None and \
                all(strip(x)[0] in ("lit", "path", "field") and not has_call(x) for x in (it[1], it[2]))
        def drop_if(e):
            el = e[3]
            if el is not None:
                s2, t2 = block_parts(el)
                el = (drop(s2), drop_if(t2) if (t2 is not None and t2[0] == "if") else t2)
            s1, t1 = block_parts(e[2])
            return ("if", e[1], (drop(s1), t1), el)
        st2 = drop(st)
        # no reference to an eliminated variable may remain
        left = set()
        walk_block((st2, tl), lambda x: left.add(x[1][0]) if x[0] == "path" and len(x[1]) == 1 and x[1][0] in D else None)
        if left:
            raise Unsupported(f"dead-code elimination left references to {sorted(left)}")
        notes["eliminated"] = sorted(D)
        return st2, tl

# ------------------------------------------------------------------ types
def norm_ty(s, self_name="JitterRng"):
    """type of a parameter / result in normal form"""
    if s is None:
        return ("unit",)
    if not isinstance(s, str):
        s = "".join(t[1] for t in s)
    s = s.strip()
    while s.startswith("&"):
        s = s[1:].lstrip()
        if s.startswith("mut"):
            s = s[3:].lstrip()
    if s == "()":
        return ("unit",)
    m = re.match(r"^Option<(.*)>$", s)
    if m:
        return ("option", norm_ty(m.group(1), self_name))
    m = re.match(r"^Result<(.*),TimerError>$", s)
    if m:
        return ("result", norm_ty(m.group(1), self_name), "TimerError")
    if s in ("Self", self_name) or re.match(r"^%s<.*>$" % re.escape(self_name), s):
        return ("named", self_name)
    if s in ("JitterRng", "EcState") or re.match(r"^JitterRng<.*>$", s):
        return ("named", s.split("<")[0])
    if s == "F":
        return ("timer",)
    return parse_ty(s)

LEAN_STRUCT = {"JitterRng": "Jitter.Rng", "EcState": "Jitter.Ec"}

def lean_type(t):
    if t in INT or t in ("nat", "bool"):
        return lean_ty(t)
    if t == ("unit",):
        return "Unit"
    if isinstance(t, tuple):
        if t[0] == "named" and t[1] in LEAN_STRUCT:
            return LEAN_STRUCT[t[1]]
        if t[0] == "option":
            return f"Option {atomize(lean_type(t[1]))}"
        if t[0] == "result":
            return f"Except Jitter.TimerError {atomize(lean_type(t[1]))}"
        if t[0] == "arr" and t[1] in INT:
            return f"List ({lean_ty(t[1])})"
    raise Unsupported(f"no Lean type for {t}")

def atomize(s):
    return s if re.match(r"^[\w.]+$", s) else f"({s})"

def tuple_ty(ts):
    return " × ".join(atomize(t) if i < len(ts) - 1 else t for i, t in enumerate(ts)) if ts else "Unit"

def proj(base, i, n):
    """i-th component of a right-nested n-tuple"""
    if n == 1:
        return base
    return base + ".2" * i + (".1" if i < n - 1 else "")

class TyVar:
    def __init__(self, lit=False):
        self.parent, self.ty, self.lit = None, None, lit
    def find(self):
        x = self
        while x.parent is not None:
            x = x.parent
        return x

class Infer:
    """Rust-like inference for the integer types of untyped `let`s (unification; unconstrained literals are i32)"""
    def __init__(self, tr):
        self.tr = tr
        self.letty, self.forty = {}, {}
        self.env = [{}]

    def unify(self, a, b):
        if a is None or b is None:
            return a if b is None else b
        if isinstance(a, tuple) and isinstance(b, tuple) and a[0] == b[0] == "arr":
            return ("arr", self.unify(a[1], b[1]), a[2])
        if isinstance(a, TyVar):
            a = a.find()
        if isinstance(b, TyVar):
            b = b.find()
        if isinstance(a, TyVar) and isinstance(b, TyVar):
            if a is not b:
                if a.ty is None:
                    a.ty = b.ty
                b.parent = a
                a.lit = a.lit and b.lit
            return a
        if isinstance(a, TyVar):
            if a.ty is None and (b in INT or b == "nat"):
                a.ty = b
            return a
        if isinstance(b, TyVar):
            return self.unify(b, a)
        return a

    def resolve(self, t):
        if isinstance(t, TyVar):
            r = t.find()
            return r.ty if r.ty is not None else ("i32" if r.lit else None)
        if isinstance(t, tuple) and t[0] == "arr":
            return ("arr", self.resolve(t[1]), t[2])
        return t

    def lookup(self, n):
        for d in reversed(self.env):
            if n in d:
                return d[n]
        return None

    def block(self, b, want=None):
        st, tl = block_parts(b)
        self.env.append({})
        for s in st:
            self.stmt(s)
        r = self.ty(tl, want) if tl is not None else None
        self.env.pop()
        return r

    def stmt(self, s):
        k = s[0]
        if k == "let":
            t = self.ty(s[4]) if s[4] is not None else None
            if s[3]:
                d = norm_ty(s[3])
                self.unify(t, d); t = d
            if s[1][0] == "name":
                self.env[-1][s[1][1]] = t
                self.letty[id(s)] = t
        elif k == "const":
            d = norm_ty(s[2])
            self.unify(self.ty(s[3]), d)
            self.env[-1][s[1]] = d
        elif k == "assign":
            a, b = self.ty(s[1]), self.ty(s[3])
            if s[2] not in ("<<", ">>"):
                self.unify(a, b)
        elif k == "expr":
            self.ty(s[1])
        elif k == "for":
            it = strip(s[2])
            t = None
            if it[0] == "range" and it[1] is not None and it[2] is not None:
                t = self.unify(self.ty(it[1]), self.ty(it[2]))
            else:
                self.ty(it)
            self.forty[id(s)] = t
            self.env.append({})
            if s[1][0] == "name":
                self.env[-1][s[1][1]] = t
            self.block(s[3])
            self.env.pop()
        elif k == "while":
            self.ty(s[1]); self.block(s[2])
        elif k == "loop":
            self.block(s[1])
        elif k == "return" and s[1] is not None:
            self.unify(self.ty(s[1], self.tr.ret), self.tr.ret)

    def ty(self, e, want=None):
        tr = self.tr
        k = e[0]
        if k == "lit":
            if e[2]:
                return "nat" if e[2] in ("usize", "isize") else e[2]
            return TyVar(lit=True)
        if k == "bool":
            return "bool"
        if k in ("paren",):
            return self.ty(e[1], want)
        if k == "path":
            if len(e[1]) == 1:
                t = self.lookup(e[1][0])
                if t is not None:
                    return t
                if e[1][0] in tr.jf.const_ty:
                    return tr.jf.const_ty[e[1][0]]
                return None
            if e[1][0] in INT and e[1][1] in ("MAX", "MIN"):
                return e[1][0]
            if e[1][1:] == ["BITS"]:
                return "u32"
            return None
        if k == "field":
            b = self.ty(e[1])
            if is_self(e[1]):
                b = ("named", tr.self_struct)
            if isinstance(b, tuple) and b[0] == "named":
                d = tr.jf.fieldmap.get(b[1], {}).get(e[2])
                return d["ty"] if d and d["kind"] in ("plain", "nat") else None
            return None
        if k == "index":
            b = self.ty(e[1]); self.unify(self.ty(e[2]), "nat")
            return b[1] if isinstance(b, tuple) and b[0] == "arr" else None
        if k == "cast":
            self.ty(e[1])
            return norm_ty(e[2])
        if k == "un":
            return self.ty(e[2], want)
        if k in ("ref", "deref"):
            return self.ty(e[2] if k == "ref" else e[1], want)
        if k == "bin":
            a, b = self.ty(e[2]), self.ty(e[3])
            if e[1] in ("&&", "||"):
                return "bool"
            if e[1] in ("<<", ">>"):
                return a
            u = self.unify(a, b)
            return "bool" if e[1] in ("==", "!=", "<", ">", "<=", ">=") else u
        if k == "mcall":
            r = self.ty(e[1]) if not is_self(e[1]) else ("named", tr.self_struct)
            args = [self.ty(a) for a in e[3]]
            if isinstance(r, tuple) and r[0] == "named":
                sig = tr.jf_sig((r[1], e[2]))
                if sig is not None:
                    for a, p in zip(args, [p for p in sig["params"] if not p["scratch"]]):
                        self.unify(a, p["ty"])
                    return sig["ret"]
            if e[2] in ("wrapping_add", "wrapping_sub", "wrapping_mul") and args:
                return self.unify(r, args[0])
            if e[2] in ("rotate_left", "rotate_right", "wrapping_neg", "abs"):
                return r
            if e[2] == "leading_zeros":
                return "u32"
            if e[2] == "unsigned_abs":
                r = self.resolve(r)
                return "u" + r[1:] if isinstance(r, str) and r.startswith("i") else None
            if e[2] in ("is_none", "is_some"):
                return "bool"
            return None
        if k == "call":
            args = [self.ty(a) for a in e[2]]
            if is_timer_call(e):
                return "u64"
            f = strip(e[1])
            if f[0] == "path":
                if len(f[1]) == 2 and f[1][1] == "from" and (f[1][0] in INT or f[1][0] == "usize"):
                    return "nat" if f[1][0] == "usize" else f[1][0]
                if f[1] == ["black_box"] and args:
                    return args[0]
                if len(f[1]) == 1 and f[1][0] in tr.jf.nested:
                    for a in args:
                        self.unify(a, "u64")
                    return "u64"
                if f[1] == ["Ok"] and isinstance(want, tuple) and want[0] == "result" and args:
                    self.unify(args[0], want[1]); return want
                if f[1] == ["Some"] and isinstance(want, tuple) and want[0] == "option" and args:
                    self.unify(args[0], want[1]); return want
                if f[1] == ["Err"]:
                    return want
            return None
        if k == "if":
            self.ty(e[1])
            a = self.block(e[2], want)
            b = self.block(e[3], want) if e[3] is not None else None
            return self.unify(a, b)
        if k == "block":
            return self.block((e[1], e[2]), want)
        if k == "array":
            t = None
            for x in e[1]:
                t = self.unify(t, self.ty(x))
            return ("arr", t, len(e[1]))
        if k == "repeat":
            return ("arr", self.ty(e[1]), None)
        if k == "struct":
            m = tr.jf.fieldmap.get(e[1] if e[1] != "Self" else tr.self_struct, {})
            for n, x in e[2]:
                t = self.ty(x)
                d = m.get(n)
                if d and d["kind"] in ("plain", "nat"):
                    self.unify(t, d["ty"])
            return ("named", e[1] if e[1] != "Self" else tr.self_struct)
        if k == "tuple":
            for x in e[1]:
                self.ty(x)
            return ("unit",) if not e[1] else None
        if k == "range":
            return self.unify(self.ty(e[1]) if e[1] is not None else None, self.ty(e[2]) if e[2] is not None else None)
        return None

# ------------------------------------------------------------------ the unit: signatures, kinds
def exits_in(node, top=True):
    """does a statement / block contain `return`, `continue`, `break` or `assert!` (that concern the enclosing construct)"""
    found = []
    def fs(s):
        if s[0] in ("return", "continue", "break"):
            found.append(s[0])
        if s[0] == "expr" and s[1][0] == "macro" and s[1][1] == "assert":
            found.append("assert")
    def fe(e):
        if e[0] == "try":
            found.append("?")
    if isinstance(node, tuple) and node and isinstance(node[0], str):
        walk_block(([node], None), fe, fs)
    else:
        walk_block(node, fe, fs)
    return found

class TmUnit:
    """JitterRng (+ the calls into EcState / the nested lfsr): what `extract_units.emit_unit` drives"""
    def __init__(self, repo, namespace="Rngs.Ext.JitterRng"):
        import os
        self.jf = JFile(os.path.join(repo, "rand_jitter/src/lib.rs"), os.path.join(repo, "rand_jitter/src/error.rs"))
        jf = self.jf
        self.namespace = namespace
        self.ns = {"JitterRng": namespace, "EcState": "Rngs.Ext.EcState"}
        self.ext_done = {"EcState": None, "JitterLfsr": None}     # filled in by extract_units after those units are emitted
        self.prepared, self.unprepared = {}, {}
        for key in jf.methods:
            if key in jf.bodies or key in jf.parse_errors:
                try:
                    self.prepared[key] = jf.prepare(key)
                except Unsupported as e:
                    self.unprepared[key] = str(e)
        self.sigs = {}
        for key, fn in jf.methods.items():
            if key[0] not in ("JitterRng", "EcState"):
                continue
            sp = jf.scratch_params(key)
            params, k = [], 0
            selfkind = None
            for p in fn.params:
                if p[0] == "self":
                    selfkind = p[1]
                    continue
                txt = [t[1] for t in p[1]]
                params.append(dict(name=p[0], ty=norm_ty(p[1], key[0]), mutref=txt[:2] == ["&", "mut"], scratch=k in sp))
                k += 1
            self.sigs[key] = dict(selfkind=selfkind, params=params, ret=norm_ty(fn.ret, key[0]), kind="pure")
        # kinds: tm if the timer is read (transitively), opt if an assert! can fail
        changed = True
        while changed:
            changed = False
            for key, (body, notes) in self.prepared.items():
                if key not in self.sigs:
                    continue
                kind = self.body_kind(key, body)
                if kind != self.sigs[key]["kind"]:
                    self.sigs[key]["kind"] = kind; changed = True
        self.notes = {}

    def body_kind(self, key, body):
        kinds = set()
        def fe(e):
            if is_timer_call(e):
                kinds.add("tm")
            ck = self.jf.callee_key(key, e) if e[0] in ("call", "mcall") else None
            if ck in self.sigs:
                kinds.add(self.sigs[ck]["kind"])
            if e[0] == "call" and is_path(e[1]) is False and strip(e[1])[0] == "path" and strip(e[1])[1][-1] == "fill_bytes_via_next":
                kinds.add("tm")
        def fs(s):
            if s[0] == "expr" and s[1][0] == "macro" and s[1][1] == "assert":
                kinds.add("opt")
        walk_block(body, fe, fs)
        return "tm" if "tm" in kinds else ("opt" if "opt" in kinds else "pure")

    def always_ticks(self, key, seen=()):
        """every call of `key` consumes at least one timer reading (or blocks)"""
        if key in seen or key not in self.prepared:
            return False
        (st, tl), _ = self.prepared[key]
        def uncond(e):
            e = strip(e)
            if is_timer_call(e):
                return True
            if e[0] in ("call", "mcall"):
                ck = self.jf.callee_key(key, e)
                if ck is not None and self.always_ticks(ck, seen + (key,)):
                    return True
            if e[0] in ("if", "closure", "block", "macro"):
                return e[0] == "if" and uncond(e[1])
            if e[0] == "bin" and e[1] in ("&&", "||"):
                return uncond(e[2])
            return any(uncond(x) for x in sub_exprs(e)[0])
        for s in st:
            if s[0] in ("let", "assign", "expr", "const"):
                if any(uncond(x) for x in stmt_parts(s)[0]):
                    return True
            if exits_in(s):
                return False
        return tl is not None and uncond(tl)

    def translate_fn(self, name):
        key = ("JitterRng", name)
        if name == "stir_pool" and getattr(self, "plain", None) is not None and name in self.plain.methods:
            import rs2lean
            return rs2lean.translate_fn(self.plain, name)       # pure: the plain translator (unchanged output)
        if self.jf.problems:
            raise Unsupported("; ".join(self.jf.problems))
        if name in self.jf.trait_extra:
            raise Unsupported(self.jf.trait_extra[name])
        if name in self.jf.cfg_fns:
            raise Unsupported(f"{name} is conditionally compiled ({self.jf.cfg_fns[name]})")
        if key in self.unprepared:
            raise Unsupported(self.unprepared[key])
        if key not in self.prepared:
            raise Unsupported(f"{name} not found")
        # a callee that cannot be read: say so (instead of a consequential error)
        callees = []
        def fe(e):
            ck = self.jf.callee_key(key, e) if e[0] in ("call", "mcall") else None
            if ck is not None and ck not in callees:
                callees.append(ck)
        walk_block(self.prepared[key][0], fe)
        for ck in callees:
            if ck == (None, "black_box") and self.jf.black_box_ok:
                continue
            if ck in self.unprepared:
                raise Unsupported(f"depends on {ck[1]}, which is not translated")
        elim = self.prepared[key][1].get("eliminated")
        if elim:
            mine = [n for n, (k, f) in self.jf.nested.items() if k == key]
            done = self.ext_done.get("JitterLfsr")
            bad = [n for n in mine if n != "lfsr" or (done is not None and n not in done)]
            if bad:
                raise Unsupported(f"eliminated code ({', '.join(elim)}) may call the nested fn {bad[0]}, which is not translated "
                                  "(its purity / termination is not established)")
        tr = TmFnTr(self, key)
        text = tr.translate()
        notes = {k: v for k, v in self.prepared[key][1].items() if v}
        notes["kind"] = self.sigs[key]["kind"]
        ops = sorted(tr.partial.values())        # a multiset: re-ordering statements is harmless
        notes["partial_ops"] = ops
        text += f"\ndef {name}_partial_ops : List String := [" + ", ".join('"' + o + '"' for o in ops) + "]"
        if tr.notes:
            notes.update(tr.notes)
        self.notes[name] = notes
        return text

# ------------------------------------------------------------------ the function translator
def indent(s, n):
    return s.replace("\n", "\n" + " " * n)

class _BaseUnit:
    """the few attributes of rs2lean.Unit that FnTr touches"""
    def __init__(self, tu, struct):
        self.name, self.namespace = struct, tu.ns[struct]
        self.sinfo = StructInfo(struct, LEAN_STRUCT[struct], {})
        self.methods, self.consts, self.macros, self.prims, self.sigs = {}, {}, tu.jf.macros, {}, {}
        for n, v in tu.jf.consts.items():
            if n in tu.jf.const_ty:
                t = tu.jf.const_ty[n]
                self.consts[n] = (t, lit_lean(v, t))
        # the type context of rs2lean (array lengths given by constants, type aliases) for this file
        self.aliases = {}
        self.const_vals = {n: v for n, v in tu.jf.consts.items() if isinstance(v, int)}
        self.enter()

    def enter(self):
        import rs2lean as _r
        _r.TYCTX["aliases"], _r.TYCTX["consts"] = self.aliases, self.const_vals

    def struct_lean(self):
        return self.sinfo.lean

class TmFnTr(FnTr):
    def __init__(self, tu, key):
        self.tu, self.jf, self.key = tu, tu.jf, key
        self.self_struct = key[0]
        self.u = _BaseUnit(tu, key[0])
        self.fname = key[1]
        self.fn = tu.jf.methods[key]
        self.inferred, self.changed, self.tmp = {}, False, 0
        self.scope, self.lines = Scope(), []
        self.aliases, self.ignored_asserts = [], []        # attributes of the base class (rs2lean.FnTr.__init__ is not called)
        self.sig = tu.sigs[key]
        self.kind, self.ret = self.sig["kind"], self.sig["ret"]
        self.mon = self.kind in ("tm", "opt")
        self.pending = self.noeff = self.effects = 0
        self.partial = {}          # census of partial (possibly panicking) operations: key -> "op:type"
        self.loops = []            # enclosing early-exit loops: the accumulator names
        self.order = []            # variables in declaration order
        self.notes = {}

    def jf_sig(self, key):
        return self.tu.sigs.get(key)

    # ---------- small helpers
    def declare(self, n, var):
        self.scope.declare(n, var)
        if n not in self.order:
            self.order.append(n)

    def effect(self, what):
        if self.noeff:
            raise Unsupported(f"{what} inside a conditionally evaluated expression")
        if self.pending:
            raise Unsupported(f"{what} after other operands of the same expression (evaluation order not modelled)")
        self.effects += 1

    def stable(self, v):
        return v.lit is not None or (v.lean is not None and re.match(r"^[a-z]_\d+(\.[12])*$", v.lean) is not None) or \
            (v.lean is not None and re.match(r"^(\d+#\d+|0x[0-9a-f]+#\d+|true|false|\d+)$", v.lean) is not None)

    def to_nat(self, v):
        """Nat value of an unsigned integer / usize value"""
        if v.ty == "nat":
            return v.lean
        if getattr(v, "nat_of", None):
            return v.nat_of
        if v.ty in INT and not v.ty.startswith("i"):
            if v.lit is not None and 0 <= v.lit < (1 << INT[v.ty]):
                return str(v.lit)
            return f"{v.atom()}.toNat"
        raise Unsupported(f"value of type {v.ty} used as a count / index")

    def wrap(self, x):
        return f"pure {atomize_paren(x)}" if self.mon else x

    def blk(self, lines, final):
        if self.mon:
            if not lines:
                return final
            return "do\n" + "\n".join("  " + indent(x, 2) for x in lines + [final])
        return "(" + " ".join(lines) + " " + final + ")" if lines else final

    def sub_block(self, f):
        saved_lines, saved_scope = self.lines, self.scope
        self.lines, self.scope = [], Scope(saved_scope)
        try:
            r = f()
            return self.lines, r
        finally:
            self.lines, self.scope = saved_lines, saved_scope

    def sub(self, f):
        # the base class renders these line buffers as pure `let` chains: no effects inside
        self.noeff += 1
        try:
            return FnTr.sub(self, f)
        finally:
            self.noeff -= 1

    def var_lean(self, n):
        if n == "self":
            return "st"
        v = self.scope.get(n)
        if v is None or v.lean is None:
            raise Unsupported(f"variable {n} not available as one value")
        return v.lean

    def var_type(self, n):
        if n == "self":
            return LEAN_STRUCT[self.self_struct]
        v = self.scope.get(n)
        return lean_type(v.ty)

    def sort_names(self, names):
        return [n for n in self.order if n in names]

    def tuple_of(self, names):
        if not names:
            return "()"
        parts = [self.var_lean(n) for n in names]
        return parts[0] if len(parts) == 1 else "(" + ", ".join(parts) + ")"

    def unpack(self, names, src):
        """bindings that spread the tuple `src` over the variables"""
        for i, n in enumerate(names):
            ln = self.var_lean(n)
            self.emit(f"let {ln} := {proj(src, i, len(names))};")

    # ---------- analysis
    def has_effect(self, node):
        found = []
        def fe(e):
            if is_timer_call(e):
                found.append(1)
            if e[0] in ("call", "mcall"):
                ck = self.jf.callee_key(self.key, e)
                if ck in self.tu.sigs and self.tu.sigs[ck]["kind"] != "pure":
                    found.append(1)
        if isinstance(node, tuple) and node and isinstance(node[0], str) and node[0] in \
                ("let", "const", "assign", "expr", "for", "while", "loop", "return", "break", "continue"):
            walk_block(([node], None), fe)
        elif isinstance(node, tuple) and node and isinstance(node[0], str):
            walk_expr(node, fe)
        else:
            walk_block(node, fe)
        return bool(found)

    def assigned_in(self, block):
        """outer variables (declaration order, `self` first) that the block may assign"""
        names, declared = set(), set()
        def root(e):
            e = strip(e)
            while e[0] in ("index", "field", "paren", "deref"):
                e = strip(e[1])
            if e[0] == "path" and len(e[1]) == 1:
                return e[1][0]
            return None
        def fe(e):
            if e[0] == "ref" and e[1]:
                r = root(e[2])
                if r:
                    names.add(r)
            if e[0] == "mcall":
                r = root(e[1])
                if r == "self":
                    ck = self.jf.callee_key(self.key, e)
                    if ck is None or self.tu.sigs.get(ck, {}).get("selfkind") == "mut":
                        names.add("self")
                elif r is not None:
                    v = self.scope.get(r)
                    if v is not None and isinstance(v.ty, tuple) and v.ty[0] == "named":
                        names.add(r)
            if e[0] == "call":
                for a in e[2]:
                    if is_self(a):
                        names.add("self")
        def fs(s):
            if s[0] == "assign":
                r = root(s[1])
                if r:
                    names.add(r)
            if s[0] == "let":
                for n in ([s[1][1]] if s[1][0] == "name" else s[1][1]):
                    declared.add(n)
            if s[0] == "for":
                for n in ([s[1][1]] if s[1][0] == "name" else s[1][1]):
                    declared.add(n)
        walk_block(block, fe, fs)
        declared.discard("_")
        outer = {n for n in declared if self.scope.get(n) is not None}
        if outer:
            raise Unsupported(f"a block re-declares the outer variable(s) {sorted(outer)}")
        out = []
        if "self" in names:
            if self.sig["selfkind"] != "mut":
                raise Unsupported("self is modified in a function that does not take &mut self")
            out.append("self")
        for n in self.order:
            if n in names and n != "self" and self.scope.get(n) is not None and n not in declared:
                out.append(n)
        return out

    # ---------- places
    def field_info(self, struct, fname):
        d = self.jf.fieldmap.get(struct, {}).get(fname)
        if d is None:
            raise Unsupported(f"unknown field {struct}.{fname}")
        if d["kind"] == "timer":
            raise Unsupported("the timer closure is used other than by calling or cloning it")
        if d["kind"] == "scratch":
            raise Unsupported(f"scratch memory {struct}.{fname} used as a value")
        return d

    def struct_of(self, e):
        """(lean value, struct name) when e denotes a struct value (self or a struct-typed variable)"""
        e = strip(e)
        if e[0] in ("deref", "ref"):
            return self.struct_of(e[1] if e[0] == "deref" else e[2])
        if is_self(e):
            return "st", self.self_struct
        if e[0] == "path" and len(e[1]) == 1:
            v = self.scope.get(e[1][0])
            if v is not None and isinstance(v.ty, tuple) and v.ty[0] == "named" and v.ty[1] in LEAN_STRUCT:
                return v.lean, v.ty[1]
        return None

    def read_place(self, e, want=None):
        k = e[0]
        if k == "field":
            so = self.struct_of(e[1])
            if so is not None:
                lv, sn = so
                d = self.field_info(sn, e[2])
                if d["kind"] == "nat":
                    v = Val(f"BitVec.ofNat {d['width']} {lv}.{d['proj']}", d["ty"])
                    v.nat_of = f"{lv}.{d['proj']}"
                    return v
                return Val(f"{lv}.{d['proj']}", d["ty"])
            raise Unsupported(f"field .{e[2]} of this expression")
        if k == "path" and len(e[1]) == 1:
            n = e[1][0]
            if n == "None" and self.scope.get(n) is None:
                return Val("none", want if isinstance(want, tuple) and want[0] == "option" else ("option", None))
            v = self.scope.get(n)
            if v is not None and isinstance(v.ty, tuple) and v.ty == ("timer",):
                raise Unsupported("the timer closure is used as a value")
            if v is not None and getattr(v, "nat_of", None):
                r = Val(v.lean, v.ty, place=v)
                r.nat_of = v.nat_of
                return r
        if k == "index":
            b = strip(e[1])
            if b[0] == "path" and len(b[1]) == 1:
                v = self.scope.get(b[1][0])
                if v is not None and isinstance(v.ty, tuple) and v.ty[0] == "arr" and v.elems is None and v.ty[1] in INT and getattr(v, "is_list", False):
                    idx = self.expr(e[2], "nat")
                    self.partial.setdefault(id(e), "index")
                    return Val(f"{v.lean}.getD {atomize_paren(self.to_nat(idx))} {lit_lean(0, v.ty[1])}", v.ty[1])
            raise Unsupported("indexing")
        return FnTr.read_place(self, e, want)

    def write_place(self, e, val):
        e0 = strip(e)
        if e0[0] == "deref":
            return self.write_place(e0[1], val)
        if e0[0] == "field":
            so = self.struct_of(e0[1])
            if so is None:
                raise Unsupported("assignment to a field of this expression")
            lv, sn = so
            d = self.field_info(sn, e0[2])
            x = self.to_nat(val) if d["kind"] == "nat" else val.lean
            if d["kind"] == "nat" and val.ty != d["ty"]:
                raise Unsupported(f"value of type {val.ty} stored into {sn}.{e0[2]}")
            self.emit(f"let {lv} : {LEAN_STRUCT[sn]} := {{ {lv} with {d['proj']} := {x} }};")
            return
        if e0[0] == "path" and len(e0[1]) == 1:
            v = self.scope.get(e0[1][0])
            if v is None:
                raise Unsupported(f"assignment to unknown {e0[1][0]}")
            if v.elems is not None or getattr(v, "is_list", False) or (isinstance(v.ty, tuple) and v.ty[0] != "named"):
                raise Unsupported("assignment to an array / compound variable")
            self.emit(f"let {v.lean} := {val.lean};")
            return
        raise Unsupported(f"assignment to {e0[0]}")

    # ---------- expressions
    def expr_(self, e, want=None):
        k = e[0]
        if k == "val":
            return e[1]
        if k == "tuple" and not e[1]:
            return Val("()", ("unit",))
        if k == "cast":
            to = norm_ty(e[2])
            v = self.expr(e[1])
            if getattr(v, "nat_of", None) and (to == "nat" or (to in INT and not to.startswith("i") and INT[to] > INT[v.ty])):
                if to == "nat":
                    return Val(v.nat_of, "nat")
            return FnTr.expr_(self, ("cast", ("val", v), e[2]), want)
        if k == "struct":
            return self.struct_lit(e)
        if k == "array":
            ety = want[1] if isinstance(want, tuple) and want[0] == "arr" else None
            vs = [self.expr(x, ety) for x in e[1]]
            ety = ety or next((x.ty for x in vs if x.ty is not None), None)
            if ety not in INT:
                raise Unsupported("array literal of unknown element type")
            vs = [self.coerce(x, ety) for x in vs]
            v = Val("[" + ", ".join(x.lean for x in vs) + "]", ("arr", ety, len(vs)))
            v.is_list = True
            return v
        if k in ("repeat", "closure", "range", "try", "str"):
            raise Unsupported(f"expression {k}")
        return FnTr.expr_(self, e, want)

    def binop(self, op, l, r, want):
        cmp = op in ("==", "!=", "<", ">", "<=", ">=")
        if op in ("&&", "||"):
            a = self.expr(l, "bool")
            self.noeff += 1
            try:
                b = self.expr(r, "bool")
            finally:
                self.noeff -= 1
            return Val(f"{a.atom()} {op} {b.atom()}", "bool")
        shift = op in ("<<", ">>")
        a = self.expr(l, None if cmp else want)
        if op in ("+", "-", "*", "/", "%", "<<", ">>") and not cmp:
            pkey = (id(l), id(r))
        else:
            pkey = None
        guard = not self.stable(a)
        self.pending += guard
        try:
            b = self.expr(r, None if shift else (a.ty if a.ty is not None else (None if cmp else want)))
        finally:
            self.pending -= guard
        if pkey is not None:
            t = a.ty if a.ty is not None else (b.ty if not shift else None)
            if not (a.lit is not None and b.lit is not None and a.ty is None and b.ty is None):
                if not (shift and b.lit is not None and t in INT and b.lit < INT[t]):
                    self.partial.setdefault(pkey, f"{op}:{t if t is not None else want}")
        if shift and b.lit is None:
            if a.ty not in INT:
                raise Unsupported("shift of a value of unknown type by a variable amount")
            w = INT[a.ty]
            if b.ty == "nat":
                amt = f"({b.lean} % {w})"
            elif b.ty in INT and (not b.ty.startswith("i") or getattr(b, "nat_of", None)):
                amt = f"({self.to_nat(b)} % {w})"       # Rust masks the amount in release builds (and panics in debug builds)
            else:
                raise Unsupported("shift amount of unknown type")
            if op == "<<":
                return Val(f"{a.atom()} <<< {amt}", a.ty)
            return Val(f"{a.atom()}.sshiftRight {amt}" if a.ty.startswith("i") else f"{a.atom()} >>> {amt}", a.ty)
        if op in ("/", "%") and not cmp:
            ty = a.ty if a.ty is not None else b.ty
            if ty in INT and ty.startswith("i"):
                a, b = self.fix(a, ty), self.fix(b, ty)
                return Val(f"BitVec.{'sdiv' if op == '/' else 'srem'} {a.atom()} {b.atom()}", ty)
        return FnTr.binop(self, op, ("val", a), ("val", b), want)

    def struct_lit(self, e):
        sn = e[1] if e[1] != "Self" else self.self_struct
        m = self.jf.fieldmap.get(sn)
        if m is None:
            raise Unsupported(f"struct literal {e[1]}")
        parts, seen = {}, set()
        for fname, fe in e[2]:
            d = m.get(fname)
            if d is None:
                raise Unsupported(f"unknown field {sn}.{fname}")
            if fname in seen:
                raise Unsupported("field initialised twice")
            seen.add(fname)
            if d["kind"] == "scratch":
                raise Unsupported("scratch memory initialised in an unexpected way")
            if d["kind"] == "timer":
                x = strip(fe)
                ok = False
                if x[0] == "mcall" and x[2] == "clone" and not x[3]:
                    y = strip(x[1])
                    ok = y[0] == "field" and is_self(y[1]) and m.get(y[2], {}).get("kind") == "timer"
                if x[0] == "path" and len(x[1]) == 1:
                    v = self.scope.get(x[1][0])
                    ok = v is not None and v.ty == ("timer",)
                if not ok:
                    raise Unsupported("the timer of the new value is not the given timer / a clone of self.timer")
                continue
            guard = any(not re.match(r"^[\w#.]+$", p) for p in parts.values())
            self.pending += guard
            try:
                v = self.expr(fe, d["ty"])
            finally:
                self.pending -= guard
            if v.ty != d["ty"]:
                raise Unsupported(f"field {fname} initialised with a value of type {v.ty}")
            parts[d["proj"]] = self.to_nat(v) if d["kind"] == "nat" else v.lean
        need = {d["proj"] for d in m.values() if d["kind"] in ("plain", "nat")}
        if set(parts) != need:
            raise Unsupported(f"struct literal {sn}: fields {sorted(need - set(parts))} missing")
        order = [d["proj"] for d in m.values() if d["kind"] in ("plain", "nat")]
        return Val("{ " + ", ".join(f"{p} := {parts[p]}" for p in order) + f" : {LEAN_STRUCT[sn]} }}", ("named", sn))

    def call(self, e, want):
        if is_timer_call(e):
            if self.kind != "tm":
                raise Unsupported("timer read in a function that was not classified as reading the timer")
            self.effect("timer read")
            t = self.fresh("t")
            self.emit(f"let {t} ← Jitter.tick;")
            return Val(t, "u64")
        f, args = strip(e[1]), e[2]
        if f[0] != "path":
            raise Unsupported("call of a non-path")
        segs = f[1]
        full = "::".join(segs)
        if full == "black_box" and len(args) == 1:
            if not self.jf.black_box_ok:
                raise Unsupported("black_box is not the known identity function")
            return self.expr(args[0], want)
        if len(segs) == 1 and segs[0] in self.jf.nested:
            nm = segs[0]
            done = self.tu.ext_done.get("JitterLfsr")
            if nm != "lfsr" or (done is not None and nm not in done):
                raise Unsupported(f"nested fn {nm} is not translated")
            owner, nf = self.jf.nested[nm]
            ptys = [norm_ty(p[1]) for p in nf.params]
            if len(ptys) != len(args):
                raise Unsupported("argument count")
            vs = self.eval_args(args, ptys)
            return Val(f"Rngs.Ext.JitterLfsr.{nm}" + "".join(" " + v.atom() for v in vs), norm_ty(nf.ret))
        if full in ("Ok", "Err", "Some") and len(args) == 1:
            if full == "Some":
                inner = want[1] if isinstance(want, tuple) and want[0] == "option" else None
                v = self.expr(args[0], inner)
                return Val(f"some {v.atom()}", ("option", v.ty))
            if not (isinstance(want, tuple) and want[0] == "result"):
                want = self.ret if isinstance(self.ret, tuple) and self.ret[0] == "result" else None
            if want is None:
                raise Unsupported(f"{full}(..) where no Result is expected")
            if full == "Ok":
                v = self.expr(args[0], want[1])
                if v.ty != want[1]:
                    raise Unsupported(f"Ok(..) of type {v.ty}")
                return Val(f"Except.ok {v.atom()}", want)
            a = strip(args[0])
            if a[0] == "path" and len(a[1]) == 2 and a[1][0] == "TimerError" and a[1][1] in TIMER_ERRORS and self.jf.errors_ok:
                return Val(f"Except.error Jitter.TimerError.{a[1][1]}", want)
            raise Unsupported("Err(..) of something else than a TimerError variant")
        if len(segs) == 2 and segs[1] == "from" and (segs[0] in INT or segs[0] == "usize") and len(args) == 1:
            to = "nat" if segs[0] == "usize" else segs[0]
            v = self.expr(args[0])
            if v.ty == "bool" and to in INT:
                return Val(f"(if {v.lean} then {lit_lean(1, to)} else {lit_lean(0, to)})", to)
            if v.ty not in INT:
                raise Unsupported(f"{full} of a value of type {v.ty}")
            if to == "nat":
                if v.ty.startswith("i") or INT[v.ty] > 16:
                    raise Unsupported(f"usize::from({v.ty})")
                return Val(self.to_nat(v), "nat")
            sw, tw, ss, ts = INT[v.ty], INT[to], v.ty.startswith("i"), to.startswith("i")
            lossless = (ss == ts and tw >= sw) or (not ss and ts and tw > sw)
            if not lossless:
                raise Unsupported(f"{full}({v.ty}) is not a lossless conversion")
            if tw == sw:
                return Val(v.lean, to)
            return Val(f"{v.atom()}.signExtend {tw}" if ss else f"{v.atom()}.setWidth {tw}", to)
        ck = self.jf.callee_key(self.key, e)
        if ck is not None and ck[0] == self.self_struct and ck in self.tu.sigs and self.tu.sigs[ck]["selfkind"] is None:
            return self.method_call(ck, None, args)
        raise Unsupported(f"call of {full}")

    def eval_args(self, args, tys):
        vs = []
        for a, t in zip(args, tys):
            guard = any(not self.stable(v) for v in vs)
            self.pending += guard
            try:
                vs.append(self.expr(a, t if (t in INT or t in ("nat", "bool")) else None))
            finally:
                self.pending -= guard
        return vs

    def mcall(self, e, want):
        _, recv, name, args = e
        r0 = strip(recv)
        so = self.struct_of(r0)
        if so is not None:
            lv, sn = so
            ck = (sn, name)
            if ck in self.tu.sigs and ck in self.jf.methods:
                return self.method_call(ck, r0, args)
            raise Unsupported(f"method {sn}::{name} not found")
        if name in ("is_none", "is_some") and not args:
            v = self.expr(recv)
            if not (isinstance(v.ty, tuple) and v.ty[0] == "option"):
                raise Unsupported(f".{name}() of a value of type {v.ty}")
            return Val(f"Option.{'isNone' if name == 'is_none' else 'isSome'} {v.atom()}", "bool")
        if name == "leading_zeros" and not args:
            v = self.expr(recv)
            if v.ty != "u64":
                raise Unsupported(f"leading_zeros of {v.ty}")
            return Val(f"Jitter.TM.leadingZeros64 {v.atom()}", "u32")
        if name in ("unsigned_abs", "abs") and not args:
            v = self.expr(recv)
            if not (v.ty in INT and v.ty.startswith("i")):
                raise Unsupported(f"{name} of {v.ty}")
            return Val(f"BitVec.abs {v.atom()}", ("u" + v.ty[1:]) if name == "unsigned_abs" else v.ty)
        if name in ("wrapping_add", "wrapping_sub", "wrapping_mul") and len(args) == 1:
            a = self.expr(recv, want if want in INT else None)
            guard = not self.stable(a)
            self.pending += guard
            try:
                b = self.expr(args[0], a.ty)
            finally:
                self.pending -= guard
            return FnTr.mcall(self, ("mcall", ("val", a), name, [("val", b)]), want)
        if name in ("rotate_left", "rotate_right", "wrapping_neg"):
            return FnTr.mcall(self, e, want)
        raise Unsupported(f"method .{name}()")

    def method_call(self, ck, recv, args):
        """call of a translated method: `self.m(..)`, `ec.m(..)`, `Self::m(..)`"""
        sig = self.tu.sigs[ck]
        if ck[0] == "EcState":
            done = self.tu.ext_done.get("EcState")
            if done is not None and ck[1] not in done:
                raise Unsupported(f"EcState::{ck[1]} is not translated")
        params = [p for p in sig["params"] if not p["scratch"]]
        if len(params) != len(args):
            raise Unsupported(f"{ck[1]}: argument count")
        kind = sig["kind"]
        if kind == "tm" and self.kind != "tm" or kind == "opt" and self.kind != "opt":
            raise Unsupported(f"call of {ck[1]} ({kind}) from a {self.kind} function")
        avals, muts = [], []
        for a, p in zip(args, params):
            if p["mutref"]:
                x = strip(a)
                if x[0] == "ref" and x[1]:
                    x = strip(x[2])
                so = self.struct_of(x)
                if so is None or x[0] != "path" or so[1] != (p["ty"][1] if isinstance(p["ty"], tuple) else None):
                    raise Unsupported(f"{ck[1]}: `&mut` argument is not a struct variable")
                avals.append(so[0]); muts.append(x[1][0])
            else:
                guard = bool(avals)
                self.pending += guard
                try:
                    v = self.expr(a, p["ty"] if (p["ty"] in INT or p["ty"] in ("nat", "bool")) else None)
                finally:
                    self.pending -= guard
                if v.ty != p["ty"]:
                    raise Unsupported(f"{ck[1]}: argument of type {v.ty} for a parameter of type {p['ty']}")
                avals.append(v.atom())
        recv_l = None
        if sig["selfkind"] is not None:
            so = self.struct_of(recv)
            recv_l = so[0]
            if sig["selfkind"] == "mut" and recv_l == "st" and self.sig["selfkind"] != "mut":
                raise Unsupported("&mut self method called in a function that does not take &mut self")
        callee = f"{self.tu.ns[ck[0]]}.{ck[1]}" + (f" {recv_l}" if recv_l else "") + "".join(" " + a for a in avals)
        outs = ([("ret", None)] if sig["ret"] != ("unit",) else []) + \
               ([("recv", recv)] if sig["selfkind"] == "mut" else []) + [("mut", m) for m in muts]
        mutating = len(outs) > (1 if sig["ret"] != ("unit",) else 0)
        if kind != "pure" or mutating:
            self.effect(f"call of {ck[1]}")
        if kind == "pure" and not mutating:
            return Val(callee, sig["ret"]) if sig["ret"] != ("unit",) else Val("()", ("unit",))
        r = self.fresh("r")
        self.emit(f"let {r} {'←' if kind != 'pure' else ':='} {callee};")
        val = Val("()", ("unit",))
        for i, (what, x) in enumerate(outs):
            p = proj(r, i, len(outs))
            if what == "ret":
                val = Val(p, sig["ret"])
            elif what == "recv":
                self.emit(f"let {recv_l} := {p};")
            else:
                self.emit(f"let {self.var_lean(x)} := {p};")
        return val

    def self_call(self, name, args):
        return self.method_call((self.self_struct, name), ("path", ["self"]), args)

    def if_expr(self, e, want):
        if not self.has_effect(e[2]) and not (e[3] is not None and self.has_effect(e[3])):
            if e[3] is not None and (self.assigned_in(e[2]) or self.assigned_in(e[3])):
                raise Unsupported("assignments inside an if expression with a value")
            return FnTr.if_expr(self, e, want)
        if e[3] is None:
            raise Unsupported("if without else in value position")
        return self.if_monadic(e, want, value=True)

    # ---------- statements
    def declare_let(self, s):
        _, pat, mut, ty, init = s
        if pat[0] != "name":
            raise Unsupported("tuple pattern")
        n = pat[1]
        if init is None:
            raise Unsupported("let without initialiser")
        dty = norm_ty(ty) if ty else self.inf.resolve(self.inf.letty.get(id(s)))
        v = self.expr(init, dty)
        if n == "_":
            return
        vty = dty if dty is not None else v.ty
        if vty is None or (isinstance(vty, tuple) and vty[0] == "option" and vty[1] is None):
            raise Unsupported(f"type of `{n}` could not be inferred")
        if v.ty is None:
            v = self.coerce(v, vty)
        if v.ty != vty and not (isinstance(vty, tuple) and vty[0] == "arr"):
            raise Unsupported(f"`{n}` declared with type {vty} but initialised with {v.ty}")
        ln = lname(n)
        if isinstance(vty, tuple) and vty[0] == "named":
            self.emit(f"let {ln} : {LEAN_STRUCT[vty[1]]} := {v.lean};")
            self.declare(n, Var(n, vty, ln))
            return
        if getattr(v, "is_list", False):
            self.emit(f"let {ln} : {lean_type(v.ty)} := {v.lean};")
            var = Var(n, v.ty, ln)
            var.is_list = True
            self.declare(n, var)
            return
        if v.elems is not None:
            raise Unsupported("array value")
        self.emit(f"let {ln} := {v.lean};")
        self.declare(n, Var(n, vty, ln))

    def stmt(self, s, rest=None):
        k = s[0]
        if k == "let":
            return self.declare_let(s)
        if k == "const":
            cty = norm_ty(s[2])
            v = self.expr(s[3], cty)
            if v.ty != cty:
                raise Unsupported(f"const {s[1]}")
            ln = lname(s[1])
            if getattr(v, "is_list", False):
                self.emit(f"let {ln} : {lean_type(v.ty)} := {v.lean};")
                var = Var(s[1], v.ty, ln, const=True); var.is_list = True
            else:
                self.emit(f"let {ln} := {v.lean};")
                var = Var(s[1], cty, ln, const=True)
            self.declare(s[1], var)
            return
        if k == "assign":
            _, place, op, rhs = s
            if op is None:
                cur = self.read_place_type(place)
                v = self.expr(rhs, cur)
                if cur is not None and v.ty != cur:
                    raise Unsupported(f"assignment of a value of type {v.ty} to a place of type {cur}")
                self.write_place(place, v)
            else:
                # primitive compound assignment: the right operand is evaluated first
                cur = self.read_place_type(place)
                b = self.expr(rhs, None if op in ("<<", ">>") else cur)
                a = self.read_place(strip(place))
                v = self.binop(op, self.val_node(s, 0, a), self.val_node(s, 1, b), None)
                self.write_place(place, v)
            return
        if k == "expr":
            e = s[1]
            if e[0] == "if":
                return self.if_stmt(e)
            if e[0] == "block":
                if self.assigned_in((e[1], e[2])) is None:
                    pass
                saved = self.scope
                self.scope = Scope(saved)
                try:
                    for x in e[1]:
                        if exits_in(x):
                            raise Unsupported("early exit inside a nested block")
                        self.stmt(x)
                    if e[2] is not None:
                        self.expr(e[2])
                finally:
                    self.scope = saved
                return
            if e[0] == "macro":
                raise Unsupported(f"statement macro {e[1]}!")
            self.expr(e)
            return
        if k == "for":
            return self.for_stmt(s)
        if k == "while":
            return self.while_stmt(s)
        raise Unsupported(f"statement {k}")

    def val_node(self, s, i, v):
        """a ("val", v) node that is the same object for the same statement (the census counts every source operation once)"""
        c = self.__dict__.setdefault("_val_nodes", {})
        k = (id(s), i)
        if k not in c:
            c[k] = ["val", v]
        c[k][1] = v
        return c[k]

    def read_place_type(self, place):
        saved = self.lines
        self.lines = []
        try:
            return self.read_place(strip(place)).ty
        except Unsupported:
            return None
        finally:
            self.lines = saved

    def branch_stmts(self, b):
        st, tl = block_parts(b)
        return st + ([("expr", tl)] if tl is not None else [])

    def if_stmt(self, e):
        _, c, th, el = e
        monadic = self.mon and (self.has_effect(th) or (el is not None and self.has_effect(el)))
        if monadic:
            self.if_monadic(e, None, value=False)
            return
        cv = self.expr(c, "bool")
        names = self.assigned_in(th)
        if el is not None:
            for n in self.assigned_in(el):
                if n not in names:
                    names.append(n)
        names = self.sort_names(names)
        if not names:
            return
        def br(b):
            def f():
                for x in (self.branch_stmts(b) if b is not None else []):
                    self.stmt(x)
                return self.tuple_of(names)
            self.noeff += 1
            try:
                return self.sub_block(f)
            finally:
                self.noeff -= 1
        l1, t1 = br(th)
        l2, t2 = br(el)
        def pure_blk(lines, fin):
            return "(" + " ".join(lines) + " " + fin + ")" if lines else fin
        r = self.fresh("c")
        self.emit(f"let {r} := if {cv.lean} then {pure_blk(l1, t1)} else {pure_blk(l2, t2)};")
        self.unpack(names, r)

    def if_monadic(self, e, want, value):
        _, c, th, el = e
        cv = self.expr(c, "bool")
        names = self.assigned_in(th)
        if el is not None:
            for n in self.assigned_in(el):
                if n not in names:
                    names.append(n)
        names = self.sort_names(names)
        vty = [None]
        def br(b):
            def f():
                st, tl = block_parts(b)
                for x in st:
                    self.stmt(x)
                parts = []
                if value:
                    if tl is None:
                        raise Unsupported("branch without a value")
                    v = self.expr(tl, want if want is not None else vty[0])
                    vty[0] = vty[0] or v.ty
                    v = self.fix(v, vty[0])
                    parts.append(v.lean)
                elif tl is not None:
                    self.expr(tl)
                parts += [self.var_lean(n) for n in names]
                return self.wrap("(" + ", ".join(parts) + ")" if len(parts) != 1 else parts[0]) if parts else self.wrap("()")
            return self.sub_block(f)
        l1, t1 = br(th)
        l2, t2 = br(el) if el is not None else ([], self.wrap(self.tuple_of(names)))
        if value and vty[0] is None:
            raise Unsupported("type of the if expression unknown")
        r = self.fresh("c")
        self.emit(f"let {r} ← (if {cv.lean} then {indent(self.blk(l1, t1), 2)}\n  else {indent(self.blk(l2, t2), 2)});")
        n = len(names) + (1 if value else 0)
        for i, nm in enumerate(names):
            self.emit(f"let {self.var_lean(nm)} := {proj(r, i + (1 if value else 0), n)};")
        if value:
            return Val(proj(r, 0, n), vty[0])
        return None

    def range_of(self, s):
        """(list expression for pure folds, lo, count, element type) of the range a `for` iterates over"""
        it = strip(s[2])
        if it[0] != "range" or it[1] is None or it[2] is None:
            raise Unsupported("for over something else than a range")
        ety = self.inf.resolve(self.inf.forty.get(id(s)))
        lo = self.expr(it[1], ety)
        hi = self.expr(it[2], ety)
        ety = ety or lo.ty or hi.ty
        if ety is None and lo.lit is not None and hi.lit is not None:
            ety = "i32"
        lo, hi = self.fix(lo, ety), self.fix(hi, ety)
        if ety == "i32" and lo.lit is not None and hi.lit is not None and 0 <= lo.lit <= hi.lit:
            lo_n, hi_n = str(lo.lit), str(hi.lit)
        elif ety in INT and ety.startswith("i"):
            raise Unsupported("range over a signed type")
        else:
            lo_n, hi_n = self.to_nat(lo), self.to_nat(hi)
        if it[3]:
            hi_n = f"({hi_n} + 1)"
        cnt = hi_n if lo_n == "0" else f"({hi_n} - {lo_n})"
        lst = f"(List.range {atomize_paren(hi_n)})" if lo_n == "0" else f"(List.range' {atomize_paren(lo_n)} {cnt})"
        return lst, lo_n, cnt, ety

    def bind_loop_var(self, s, raw, ety):
        if s[1][0] != "name":
            raise Unsupported("tuple loop variable")
        n = s[1][1]
        if n == "_":
            return
        ln = lname(n)
        if ety in INT:
            self.emit(f"let {ln} := BitVec.ofNat {INT[ety]} {raw};")
        else:
            self.emit(f"let {ln} := {raw};")
        var = Var(n, ety if ety is not None else "nat", ln)
        if ety in INT:
            var.nat_of = raw          # the index itself (non-negative, below the bound of the range)
        self.scope.declare(n, var)

    def for_stmt(self, s):
        body = s[3]
        if exits_in(body):
            raise Unsupported("early exit from a loop in this position")
        lst, lo_n, cnt, ety = self.range_of(s)
        names = self.assigned_in(body)
        if s[1][0] == "name" and s[1][1] in names:
            raise Unsupported("loop variable assigned")
        monadic = self.mon and self.has_effect(body)
        acc, iv = self.fresh("acc"), self.fresh("i")
        def f():
            self.unpack(names, acc)
            self.bind_loop_var(s, iv, ety)
            for x in self.branch_stmts(body):
                self.stmt(x)
            return self.tuple_of(names)
        if not monadic:
            self.noeff += 1
            try:
                lines, t = self.sub_block(f)
            finally:
                self.noeff -= 1
            if not names:
                return
            r = self.fresh("acc")
            self.emit(f"let {r} := List.foldl (fun {acc} {iv} => ({' '.join(lines)} {t})) {self.tuple_of(names)} {lst};")
            self.unpack(names, r)
            return
        lines, t = self.sub_block(f)
        r = self.fresh("acc")
        self.emit(f"let {r} ← Jitter.TM.forRange {atomize_paren(lo_n)} {atomize_paren(cnt)} (fun {iv} {acc} => {indent(self.blk(lines, self.wrap(t)), 2)}) {self.tuple_of(names)};")
        self.unpack(names, r)

    def while_stmt(self, s):
        _, c, body = s
        if self.kind != "tm" or not (self.has_effect(c) or self.has_effect(body)):
            raise Unsupported("while loop that does not read the timer (no bound on its iterations)")
        if exits_in(body):
            raise Unsupported("early exit from a while loop")
        # the fuel is the number of remaining readings + 1: sound iff every iteration consumes a reading
        if not self.iteration_ticks(c, body):
            raise Unsupported("cannot see that every iteration of the while loop reads the timer")
        names = self.assigned_in(([("expr", c)] + self.branch_stmts(body), None))
        acc = self.fresh("acc")
        def f():
            self.unpack(names, acc)
            cv = self.expr(c, "bool")
            def g():
                for x in self.branch_stmts(body):
                    self.stmt(x)
                return self.wrap(f"(true, {self.tuple_of(names)})")
            bl, bt = self.sub_block(g)
            if not bl:
                return self.wrap(f"({cv.lean}, {self.tuple_of(names)})")
            return f"if {cv.lean} then {indent(self.blk(bl, bt), 2)}\n  else {self.wrap(f'(false, {self.tuple_of(names)})')}"
        lines, t = self.sub_block(f)
        r = self.fresh("acc")
        self.emit(f"let {r} ← Jitter.TM.whileFuel (fun {acc} => {indent(self.blk(lines, t), 2)}) {self.tuple_of(names)};")
        self.unpack(names, r)

    def iteration_ticks(self, c, body):
        def uncond(e):
            e = strip(e)
            if is_timer_call(e):
                return True
            if e[0] in ("call", "mcall"):
                ck = self.jf.callee_key(self.key, e)
                if ck is not None and self.tu.always_ticks(ck):
                    return True
            if e[0] in ("if", "closure", "block", "macro"):
                return e[0] == "if" and uncond(e[1])
            if e[0] == "bin" and e[1] in ("&&", "||"):
                return uncond(e[2])
            return any(uncond(x) for x in sub_exprs(e)[0])
        return uncond(c)

    # ---------- sequences with early exits
    def result_tuple(self, v):
        parts = ([v.lean] if self.ret != ("unit",) else []) + [self.var_lean(n) for n in self.out_names]
        if not parts:
            return "()"
        return parts[0] if len(parts) == 1 else "(" + ", ".join(parts) + ")"

    def exit_value(self, e):
        if self.ret == ("unit",):
            if e is not None:
                self.expr(e)
            v = None
        else:
            if e is None:
                raise Unsupported("return without a value")
            v = self.expr(e, self.ret)
            if v.ty != self.ret and not (isinstance(v.ty, tuple) and v.ty[0] == "option" and v.ty[1] is None):
                raise Unsupported(f"result of type {v.ty}, expected {self.ret}")
        return self.result_tuple(v)

    def exit_return(self, e):
        rt = self.exit_value(e)
        if self.loops:
            return self.wrap(f"(Except.error {atomize_paren(rt)})")
        return self.wrap(rt)

    def exit_continue(self):
        if not self.loops:
            raise Unsupported("continue outside a translated loop")
        return self.wrap(f"(Except.ok {atomize_paren(self.tuple_of(self.loops[-1]))})")

    def seq(self, stmts, k):
        for i, s in enumerate(stmts):
            rest = stmts[i + 1:]
            if s[0] == "return":
                return self.exit_return(s[1])
            if s[0] == "continue":
                return self.exit_continue()
            if s[0] == "break":
                raise Unsupported("break")
            if s[0] == "expr" and s[1][0] == "macro" and s[1][1] == "assert":
                if self.kind != "opt":
                    raise Unsupported("assert! in a function that reads the timer")
                args = macro_arg_exprs(s[1][2], self.jf.macros)
                parts = rsfront.split_top(s[1][2])
                c = rsfront.Parser(parts[0], self.jf.macros).parse_expr_all()
                if has_call(c) and self.has_effect(c):
                    raise Unsupported("assert! with an effectful condition")
                cv = self.expr(c, "bool")
                self.partial.setdefault(id(s), "assert")
                lines, fin = self.sub_block(lambda: self.seq(rest, k))
                return f"if {cv.lean} then {indent(self.blk(lines, fin), 2)}\nelse none"
            if s[0] == "expr" and s[1][0] == "if" and exits_in(s):
                return self.if_exit(s[1], rest, k)
            if s[0] == "for" and exits_in(s[3]):
                return self.for_exit(s, rest, k)
            if exits_in(s):
                raise Unsupported(f"early exit inside `{s[0]}`")
            self.stmt(s)
        return k()

    def if_exit(self, e, rest, k):
        if not self.mon and False:
            pass
        cv = self.expr(e[1], "bool")
        def branch(b):
            stmts = self.branch_stmts(b) if b is not None else []
            declared = {x[1][1] for x in stmts if x[0] == "let" and x[1][0] == "name"}
            if any(self.scope.get(n) is not None for n in declared):
                raise Unsupported("a branch re-declares an outer variable")
            return self.sub_block(lambda: self.seq(stmts + list(rest), k))
        l1, t1 = branch(e[2])
        l2, t2 = branch(e[3])
        if self.mon:
            return f"if {cv.lean} then {indent(self.blk(l1, t1), 2)}\nelse {indent(self.blk(l2, t2), 2)}"
        return f"if {cv.lean} then {self.blk(l1, t1)} else {self.blk(l2, t2)}"

    def for_exit(self, s, rest, k):
        if self.kind != "tm":
            raise Unsupported("early exit from a loop in a function that does not read the timer")
        body = s[3]
        lst, lo_n, cnt, ety = self.range_of(s)
        names = self.assigned_in(body)
        acc, iv = self.fresh("acc"), self.fresh("i")
        def f():
            self.unpack(names, acc)
            self.bind_loop_var(s, iv, ety)
            self.loops.append(names)
            try:
                return self.seq(self.branch_stmts(body), self.exit_continue)
            finally:
                self.loops.pop()
        lines, t = self.sub_block(f)
        r, ev, av = self.fresh("r"), self.fresh("e"), self.fresh("acc")
        rho = self.res_ty
        self.emit(f"let {r} ← Jitter.TM.forRangeE (ρ := {rho}) {atomize_paren(lo_n)} {atomize_paren(cnt)} (fun {iv} {acc} => {indent(self.blk(lines, t), 2)}) {self.tuple_of(names)};")
        def g():
            self.unpack(names, av)
            return self.seq(list(rest), k)
        l2, t2 = self.sub_block(g)
        prop = self.wrap(f"(Except.error {ev})") if self.loops else self.wrap(ev)
        return f"match {r} with\n| Except.error {ev} => {prop}\n| Except.ok {av} => {indent(self.blk(l2, t2), 2)}"

    # ---------- whole function
    def translate(self):
        (st, tl), notes = self.tu.prepared[self.key]
        sig = self.sig
        name = self.fname
        # fill_bytes: one call of rand_core's fill_bytes_via_next(self, dest) -> its model in the timer monad
        if name == "fill_bytes":
            e = tl if tl is not None else (st[0][1] if len(st) == 1 and st[0][0] == "expr" else None)
            ok = e is not None and not (st and tl is not None) and e[0] == "call" and strip(e[1])[0] == "path" and \
                strip(e[1])[1][-1] == "fill_bytes_via_next" and len(e[2]) == 2 and is_self(e[2][0]) and is_path(e[2][1], "dest") and \
                [p["name"] for p in sig["params"]] == ["dest"] and sig["selfkind"] == "mut"
            if not ok:
                raise Unsupported("fill_bytes is not a single fill_bytes_via_next(self, dest)")
            for n, w in (("next_u32", "u32"), ("next_u64", "u64")):
                sg = self.tu.sigs.get((self.self_struct, n))
                if sg is None or sg["kind"] != "tm" or sg["ret"] != w or sg["params"] or sg["selfkind"] != "mut":
                    raise Unsupported(f"{n} does not have the expected shape")
            ns = self.tu.namespace
            self.notes["primitive"] = "rand_core::impls::fill_bytes_via_next -> Jitter.TM.fillBytesViaNext (Lib/ExtTieJitter.lean)"
            return (f"def fill_bytes (st : Jitter.Rng) (n : Nat) : Jitter.TM (List U8 × Jitter.Rng) :=\n"
                    f"  Jitter.TM.fillBytesViaNext {ns}.next_u32 {ns}.next_u64 n st")
        params = []
        if sig["selfkind"]:
            params.append(f"(st : {LEAN_STRUCT[self.self_struct]})")
            self.order.append("self")
        self.out_names = ["self"] if sig["selfkind"] == "mut" else []
        for p in sig["params"]:
            if p["scratch"] or p["ty"] == ("timer",):
                if p["ty"] == ("timer",):
                    self.declare(p["name"], Var(p["name"], ("timer",), None))
                continue
            ln = lname(p["name"])
            self.declare(p["name"], Var(p["name"], p["ty"], ln))
            params.append(f"({ln} : {lean_type(p['ty'])})")
            if p["mutref"]:
                if not (isinstance(p["ty"], tuple) and p["ty"][0] == "named"):
                    raise Unsupported(f"`&mut` parameter {p['name']} of type {p['ty']}")
                self.out_names.append(p["name"])
        outs = ([lean_type(self.ret)] if self.ret != ("unit",) else []) + [self.var_type(n) for n in self.out_names]
        self.res_ty = tuple_ty(outs)
        rty = {"tm": f"Jitter.TM {atomize(self.res_ty)}", "opt": f"Option {atomize(self.res_ty)}", "pure": self.res_ty}[self.kind]
        # type inference for untyped lets
        self.inf = Infer(self)
        for p in sig["params"]:
            if not p["scratch"]:
                self.inf.env[0][p["name"]] = p["ty"]
        for s in st:
            self.inf.stmt(s)
        if tl is not None:
            self.inf.unify(self.inf.ty(tl, self.ret), self.ret)
        def k():
            return self.wrap(self.exit_value(tl))
        self.lines = []
        final = self.seq(list(st), k)
        items = self.lines + [final]
        if self.mon:
            body = "do\n" + "\n".join("  " + indent(x, 2) for x in items)
        else:
            body = "\n" + "\n".join("  " + indent(x, 2) for x in items)
        return f"def {name} {' '.join(params)} : {rty} := {body}".replace("  : ", " : ", 1) if not params else \
            f"def {name} {' '.join(params)} : {rty} := {body}"

def atomize_paren(s):
    s = s.strip()
    if re.match(r"^[\w.'#]+$", s):
        return s
    if s.startswith("(") and s.endswith(")"):
        d = 0
        for i, ch in enumerate(s):
            d += ch == "("
            d -= ch == ")"
            if d == 0 and i < len(s) - 1:
                break
        else:
            return s
    return f"({s})"
