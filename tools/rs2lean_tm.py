"""rs2lean_tm.py — the monadic part of the translator (rand_jitter): functions that read the timer closure
`(self.timer)()` are translated into `Jitter.TM = StateT (List U64) Option` (the timer is the list of values it will
return; `tick` consumes one), `assert!` functions into `Option`.

What is abstracted, and how it is justified (DESIGN.md §3b, "Extension: rand_jitter"):
  * `black_box(x)` is the identity without observable effect (its definition in the file is compared token by token
    with the known one; otherwise calls of it are unknown calls);
  * dead-code elimination: a local variable whose value flows only into itself, into other dead variables or into a
    discarded `black_box(..)` is dead; statements that only update dead variables are dropped when they are free of
    effects and of panics (no timer read, no method call, no plain `+ - * / %`, no indexing; bounded `for` only);
    every eliminated variable is reported;
  * the scratch memory (`EcState.mem`, the `mem` parameter of `memaccess`, the local of `timer_stats`): a whole-file
    check that it is only ever updated in place by wrapping / bitwise operations at an index that is provably in
    bounds, passed on as `&mut` to a parameter for which the same holds, or read inside a discarded `black_box(..)`;
    then it is dropped from the translated state.  If the check fails the functions that touch it are Unsupported;
  * `trace! debug! info! warn! error!` (checked to be the crate's forwarders to `log`) and `debug_assert!` are skipped
    when their arguments contain no call; otherwise the function is Unsupported.
Anything not fully understood raises `Unsupported`."""
import re
import rsfront
from rsfront import Unsupported
from rs2lean import FnTr, Val, Var, Scope, Unit, StructInfo, parse_ty, lit_lean, lname, INT, lean_ty

LOG_MACROS = ("trace", "debug", "info", "warn", "error")
TIMER_ERRORS = ["NoTimer", "CoarseTimer", "NotMonotonic", "TinyVariations", "TooManyStuck"]
BLACK_BOX_BODY = "unsafe { let ret = ptr :: read_volatile ( & dummy ) ; mem :: forget ( dummy ) ; ret }"

# ------------------------------------------------------------------ AST utilities
def block_parts(b):
    """a block is (stmts, tail)"""
    return ([] if b is None else list(b[0])), (None if b is None else b[1])

def sub_exprs(e):
    """direct sub-expressions and sub-blocks of an expression: (exprs, blocks)"""
    k = e[0]
    if k in ("lit", "bool", "path", "str", "macro", "val"):
        return [], []
    if k in ("paren", "deref", "cast", "field", "try"):
        return [e[1]], []
    if k in ("un", "ref"):
        return [e[2]], []
    if k == "index":
        return [e[1], e[2]], []
    if k == "bin":
        return [e[2], e[3]], []
    if k == "mcall":
        return [e[1]] + list(e[3]), []
    if k == "call":
        return [e[1]] + list(e[2]), []
    if k == "if":
        return [e[1]], [b for b in (e[2], e[3]) if b is not None]
    if k == "block":
        return [], [(e[1], e[2])]
    if k in ("array", "tuple"):
        return list(e[1]), []
    if k == "repeat":
        return [e[1], e[2]], []
    if k == "struct":
        return [x for _, x in e[2]], []
    if k == "closure":
        return [e[2]], []
    if k == "range":
        return [x for x in (e[1], e[2]) if x is not None], []
    raise Unsupported(f"expression kind {k}")

def stmt_parts(s):
    """(exprs, blocks) of a statement"""
    k = s[0]
    if k == "let":
        return ([s[4]] if s[4] is not None else []), []
    if k == "const":
        return [s[3]], []
    if k == "assign":
        return [s[1], s[3]], []
    if k == "expr":
        return [s[1]], []
    if k == "for":
        return [s[2]], [s[3]]
    if k == "while":
        return [s[1]], [s[2]]
    if k == "loop":
        return [], [s[1]]
    if k == "return":
        return ([s[1]] if s[1] is not None else []), []
    if k in ("break", "continue", "fn"):
        return [], []
    raise Unsupported(f"statement kind {k}")

def walk_expr(e, f):
    """pre-order over all expression nodes below e (into nested blocks); f(node)"""
    f(e)
    es, bs = sub_exprs(e)
    for x in es:
        walk_expr(x, f)
    for b in bs:
        walk_block(b, f)

def walk_block(b, f, fs=None):
    st, tl = block_parts(b)
    for s in st:
        if fs:
            fs(s)
        es, bs = stmt_parts(s)
        for x in es:
            walk_expr(x, f)
        for bb in bs:
            walk_block(bb, f, fs)
    if tl is not None:
        walk_expr(tl, f)

def strip(e):
    while e[0] == "paren":
        e = e[1]
    return e

def is_path(e, name=None):
    e = strip(e)
    return e[0] == "path" and len(e[1]) == 1 and (name is None or e[1][0] == name)

def is_self(e):
    return is_path(e, "self")

def is_timer_call(e):
    """`(self.timer)()`"""
    if e[0] != "call" or e[2]:
        return False
    f = strip(e[1])
    return f[0] == "field" and is_self(f[1]) and f[2] == "timer"

def toks_text(toks):
    return " ".join(t[1] for t in toks)

def macro_arg_exprs(args, macros):
    """the comma-separated arguments of a format-style macro, parsed as expressions (format string and `name =` skipped)"""
    out = []
    for part in rsfront.split_top(args):
        if not part:
            continue
        if part[0][0] == "str" and len(part) == 1:
            continue
        if len(part) > 2 and part[0][0] == "id" and part[1][1] == "=" and part[2][1] != "=":
            part = part[2:]
        out.append(rsfront.Parser(part, macros).parse_expr_all())
    return out

def has_call(e):
    found = []
    def f(x):
        if x[0] in ("call", "mcall", "macro", "closure", "try"):
            found.append(x)
    walk_expr(e, f)
    return bool(found)

def const_eval(e, env):
    e = strip(e)
    if e[0] == "lit":
        return e[1]
    if e[0] == "path" and len(e[1]) == 1 and e[1][0] in env:
        return env[e[1][0]]
    if e[0] == "bin" and e[1] in ("+", "-", "*", "/", "%", "<<", ">>"):
        a, b = const_eval(e[2], env), const_eval(e[3], env)
        if a is None or b is None:
            return None
        try:
            return {"+": a + b, "-": a - b, "*": a * b, "/": a // b if b else None, "%": a % b if b else None,
                    "<<": a << b, ">>": a >> b}[e[1]]
        except Exception:
            return None
    if e[0] == "cast":
        return const_eval(e[1], env)
    return None

# ------------------------------------------------------------------ purity of expressions in dropped code
PURE_METHODS = {"wrapping_add", "wrapping_sub", "wrapping_mul", "wrapping_neg", "rotate_left", "rotate_right"}

def droppable_expr(e, pure_fns, allow_index_of=()):
    """True when evaluating e has no effect and cannot panic (so that dropping it is sound): literals, variables,
    fields, bit operations, wrapping_* / rotate_*, casts, shifts by literals, calls of `black_box` and of the pure
    nested functions in `pure_fns`; indexing only of the names in allow_index_of with a literal index"""
    e = strip(e)
    k = e[0]
    if k in ("lit", "bool"):
        return True
    if k == "path":
        return len(e[1]) == 1
    if k == "field":
        return droppable_expr(e[1], pure_fns, allow_index_of)
    if k == "cast":
        return droppable_expr(e[1], pure_fns, allow_index_of)
    if k == "un":
        return e[1] == "!" and droppable_expr(e[2], pure_fns, allow_index_of)
    if k == "ref":
        return droppable_expr(e[2], pure_fns, allow_index_of)
    if k == "bin":
        if e[1] in ("^", "|", "&", "==", "!=", "<", ">", "<=", ">="):
            return droppable_expr(e[2], pure_fns, allow_index_of) and droppable_expr(e[3], pure_fns, allow_index_of)
        if e[1] in ("<<", ">>"):
            return strip(e[3])[0] == "lit" and strip(e[3])[1] < 8 and droppable_expr(e[2], pure_fns, allow_index_of)
        return False
    if k == "mcall":
        return e[2] in PURE_METHODS and not is_self(e[1]) and all(droppable_expr(x, pure_fns, allow_index_of) for x in [e[1]] + list(e[3]))
    if k == "call":
        f = strip(e[1])
        if f[0] == "path" and len(f[1]) == 1 and (f[1][0] == "black_box" or f[1][0] in pure_fns):
            return all(droppable_expr(x, pure_fns, allow_index_of) for x in e[2])
        return False
    if k == "index":
        b = strip(e[1])
        return scratch_name(b) in allow_index_of and strip(e[2])[0] == "lit"
    return False

def scratch_name(e):
    """name under which a place expression is looked up in the scratch set: `x` for a variable, `.f` for a field"""
    e = strip(e)
    if e[0] == "ref":
        return scratch_name(e[2])
    if e[0] == "deref":
        return scratch_name(e[1])
    if e[0] == "path" and len(e[1]) == 1:
        return e[1][0]
    if e[0] == "field":
        return "." + e[2]
    return None

# ------------------------------------------------------------------ whole-file analysis
class JFile:
    """rand_jitter/src/lib.rs: items, the checks that justify the abstractions, kinds of the methods"""
    def __init__(self, path, error_path=None):
        self.f = rsfront.load(path)
        f = self.f
        self.problems = []             # reasons why the whole unit cannot be translated
        # ---- log macros: exactly the forwarding shape
        self.log_ok = set()
        for m in LOG_MACROS:
            arms = f.macros.get(m)
            want = f"# [ cfg ( feature = \"log\" ) ] {{ log :: {m} ! ( $ ( $ x ) * ) }}"
            if arms and len(arms) == 1 and toks_text(arms[0][0]) == "$ ( $ x : tt ) *" and toks_text(arms[0][1]) == want:
                self.log_ok.add(m)
        self.macros = {k: v for k, v in f.macros.items() if k not in LOG_MACROS}
        # ---- black_box
        bb = f.fns.get("black_box")
        self.black_box_ok = bb is not None and bb.body is not None and toks_text(bb.body) == BLACK_BOX_BODY and len(bb.params) == 1
        # ---- constants
        self.consts = {}
        for _ in range(3):
            for n, (tt, et) in f.consts.items():
                try:
                    v = const_eval(rsfront.Parser(et, {}).parse_expr_all(), self.consts)
                except Exception:
                    v = None
                if v is not None:
                    self.consts[n] = v
        self.const_ty = {}
        for n, (tt, et) in f.consts.items():
            if n in self.consts:
                t = parse_ty("".join(x[1] for x in tt))
                if t in INT or t == "nat":
                    self.const_ty[n] = t
        # ---- methods
        self.methods, self.impl_of = {}, {}
        dup = set()
        for trait, ty, fns, consts in f.impls:
            if trait is not None and trait.endswith("Debug"):
                continue
            for k, v in fns.items():
                if v.body is None:
                    continue
                key = (ty, k)
                if key in self.methods:
                    dup.add(key)
                self.methods[key] = v
                self.impl_of[key] = trait
        for k, v in f.fns.items():
            if v.body is not None:
                self.methods[(None, k)] = v
        if dup:
            self.problems.append(f"functions defined twice: {sorted(dup)}")
        # ---- timer errors
        self.errors_ok = False
        if error_path:
            try:
                txt = re.sub(r"//[^\n]*", "", open(error_path).read())
                m = re.search(r"pub\s+enum\s+TimerError\s*\{(.*?)\}", txt, re.S)
                names = re.findall(r"^\s*([A-Za-z_]\w*)\s*(?:=[^,]*)?,", re.sub(r"#\[[^\]]*\]", "", m.group(1)), re.M) if m else []
                self.errors_ok = names[:5] == TIMER_ERRORS and all(n.startswith("__") for n in names[5:])
            except Exception:
                self.errors_ok = False
        # ---- struct shapes (positional: a consistent renaming of fields is harmless)
        self.fieldmap = {}
        self.struct_shape("JitterRng", [("u64", "data", None), ("u8", "rounds", 8), (("named", "F"), None, "timer"),
                                        ("u16", "memPrevIndex", 16), ("bool", "halfUsed", None)], "Jitter.Rng")
        self.struct_shape("EcState", [("u64", "prevTime", None), ("i32", "lastDelta", None), ("i32", "lastDelta2", None),
                                      (("arr", "u8"), None, "scratch")], "Jitter.Ec")
        # ---- parsed bodies
        self.bodies, self.parse_errors = {}, {}
        for key, fn in self.methods.items():
            try:
                self.bodies[key] = self.parse_fn_body(fn)
            except Unsupported as e:
                self.parse_errors[key] = str(e)
            except Exception as e:
                self.parse_errors[key] = f"parser error {e!r}"
        # nested pure fns (lfsr in lfsr_time)
        self.nested = {}
        for key, (st, tl) in self.bodies.items():
            for s in st:
                if s[0] == "fn":
                    self.nested[s[1].name] = (key, s[1])
        self.scratch_analysis()

    def parse_fn_body(self, fn):
        toks = fn.body
        for i, t in enumerate(toks):
            if t == ("p", "#") and i + 1 < len(toks) and toks[i + 1][1] in ("[", "!"):
                j = i + 1 if toks[i + 1][1] == "[" else i + 2
                c = rsfront.match_close(toks, j)
                head = toks[j + 1][1] if j + 1 < c else ""
                if head not in ("inline", "allow", "doc", "rustfmt", "warn", "deny", "must_use"):
                    raise Unsupported(f"attribute #[{toks_text(toks[j + 1:c])[:60]}] inside a function body (conditional compilation is not modelled)")
        rsfront._expansion_counter[0] = 0
        return rsfront.parse_body(toks, self.macros)

    def struct_shape(self, name, want, lean):
        fs = self.f.structs.get(name)
        if fs is None:
            self.problems.append(f"struct {name} not found")
            return
        got = [(n, parse_ty("".join(t[1] for t in tt))) for n, tt in fs]
        ok = len(got) == len(want)
        m = {}
        if ok:
            for (n, ty), (wty, proj, extra) in zip(got, want):
                if wty == ("arr", "u8"):
                    if not (isinstance(ty, tuple) and ty[0] == "arr" and ty[1] == "u8"):
                        ok = False
                    m[n] = dict(ty=ty, proj=None, kind="scratch")
                elif extra == "timer":
                    if not (isinstance(ty, tuple) and ty[0] == "named"):
                        ok = False
                    m[n] = dict(ty=ty, proj=None, kind="timer")
                else:
                    if ty != wty:
                        ok = False
                    m[n] = dict(ty=ty, proj=proj, kind="nat" if extra else "plain", width=extra)
        if not ok:
            self.problems.append(f"struct {name} has fields {[(n, str(t)) for n, t in got]}; the model's {lean} expects the types "
                                 f"{[str(w[0]) for w in want]} in this order")
            return
        self.fieldmap[name] = m

    # ---------------------------------------------------------------- scratch memory
    def scratch_analysis(self):
        """greatest set S of places (fields `.f`, parameters (fn, i), locals (fn, name)) such that every occurrence is an
        in-place wrapping/bitwise update at an in-bounds index, an argument bound to a parameter in S, a discarded
        black_box(..) read, or the constant initialisation"""
        cand = {}      # id -> description ; ids: (".f",) | ("param", key, idx, name) | ("local", key, name)
        self.arr_len = {}
        for sname, m in self.fieldmap.items():
            for n, d in m.items():
                if d["kind"] == "scratch":
                    cand[("field", n)] = f"{sname}.{n}"
                    self.arr_len[("field", n)] = d["ty"][2]
        for key, fn in self.methods.items():
            k = 0
            for p in fn.params:
                if p[0] == "self":
                    continue
                txt = [t[1] for t in p[1]]
                ty = parse_ty("".join(txt))
                if txt[:2] == ["&", "mut"] and isinstance(ty, tuple) and ty[0] == "arr" and ty[1] == "u8":
                    cand[("param", key, k, p[0])] = f"{key[1]}({p[0]})"
                    self.arr_len[("param", key, k, p[0])] = ty[2]
                k += 1
            if key in self.bodies:
                for s in self.bodies[key][0]:
                    if s[0] == "let" and s[1][0] == "name" and s[4] is not None and strip(s[4])[0] == "repeat":
                        n = const_eval(strip(s[4])[2], self.consts)
                        if strip(strip(s[4])[1])[0] == "lit" and (n is None or n > 64):
                            cand[("local", key, s[1][1])] = f"{key[1]}:{s[1][1]}"
                            e = strip(s[4])[2]
                            self.arr_len[("local", key, s[1][1])] = e[1][0] if is_path(e) else n
        self.why_not = {}
        S = set(cand)
        # unparsable functions that mention a candidate's name: nothing is known about them
        for key, msg in self.parse_errors.items():
            if key == (None, "black_box") and self.black_box_ok:
                continue
            body = self.methods[key].body
            names = {t[1] for t in body}
            fields = {body[i + 1][1] for i in range(len(body) - 1) if body[i][1] == "."}
            for c in list(S):
                hit = (c[1] in fields) if c[0] == "field" else (c[-1] in names and c[1] == key)
                if hit:
                    S.discard(c); self.why_not[c] = f"{key[1]} could not be parsed ({msg})"
        changed = True
        while changed:
            changed = False
            for key in self.bodies:
                bad = self.scratch_uses(key, S)
                for c, why in bad.items():
                    if c in S:
                        S.discard(c); self.why_not[c] = why; changed = True
        self.scratch = S
        self.scratch_desc = {c: cand[c] for c in S}

    def resolve(self, key, name):
        """candidate id of a scratch_name inside function `key`"""
        if name is None:
            return None
        if name.startswith("."):
            return ("field", name[1:])
        fn = self.methods[key]
        k = 0
        for p in fn.params:
            if p[0] == "self":
                continue
            if p[0] == name:
                return ("param", key, k, name)
            k += 1
        return ("local", key, name)

    def callee_key(self, key, e):
        """the file function called by expression e (mcall on self / Self::f / f), or None"""
        if e[0] == "mcall" and is_self(e[1]):
            for (ty, n) in self.methods:
                if n == e[2] and ty == key[0]:
                    return (ty, n)
        if e[0] == "call":
            f = strip(e[1])
            if f[0] == "path":
                if len(f[1]) == 1 and (None, f[1][0]) in self.methods:
                    return (None, f[1][0])
                if len(f[1]) == 2 and f[1][0] in ("Self", key[0]) and (key[0], f[1][1]) in self.methods:
                    return (key[0], f[1][1])
        return None

    def scratch_uses(self, key, S):
        """{candidate: reason} for the candidates with a use in `key` that is not one of the allowed forms"""
        bad = {}
        st, tl = self.bodies[key]
        allowed = set()        # ids of AST nodes (occurrences) that are in an allowed position
        pure_fns = set(self.nested)
        def occ(e):
            c = self.resolve(key, scratch_name(e))
            return c if c in S else None
        def mark(e):
            walk_expr(e, lambda x: allowed.add(id(x)))
        def visit_stmts(stmts):
            for i, s in enumerate(stmts):
                if s[0] == "assign" and strip(s[1])[0] == "index" and occ(strip(s[1])[1]):
                    c = occ(strip(s[1])[1])
                    why = self.update_ok(key, stmts, i, c)
                    if why:
                        bad[c] = why
                    else:
                        mark(s[1]); mark(s[3])
                elif s[0] == "expr" and s[1][0] == "call" and is_path(s[1][1], "black_box") and len(s[1][2]) == 1 and self.black_box_ok:
                    a = s[1][2][0]
                    names = set()
                    walk_expr(a, lambda x: names.add(scratch_name(x)) if x[0] in ("path", "field") else None)
                    idx_ok = {n for n in names if self.resolve(key, n) in S}
                    if droppable_expr(a, pure_fns, idx_ok) and self.lit_indices_in_bounds(key, a):
                        mark(a)
                elif s[0] == "let" and s[1][0] == "name" and self.resolve(key, s[1][1]) in S and s[4] is not None:
                    mark(s[4])
                es, bs = stmt_parts(s)
                for b in bs:
                    visit_stmts(block_parts(b)[0])
                for e in es:
                    walk_expr(e, visit_e)
        def visit_e(e):
            if e[0] in ("call", "mcall"):
                ck = self.callee_key(key, e)
                args = e[2] if e[0] == "call" else e[3]
                if ck is not None:
                    for i, a in enumerate(args):
                        c = occ(a) if strip(a)[0] in ("ref", "path", "field") else None
                        pid = next((x for x in S if x[0] == "param" and x[1] == ck and x[2] == i), None)
                        if c is not None and pid is not None:
                            mark(a)
                        elif pid is not None:
                            bad[pid] = f"{ck[1]} is called from {key[1]} with an argument that is not scratch memory"
            if e[0] == "struct":
                for n, x in e[2]:
                    if ("field", n) in S and strip(x)[0] == "repeat" and strip(strip(x)[1])[0] == "lit":
                        mark(x)
            if e[0] in ("if", "block"):
                for b in sub_exprs(e)[1]:
                    visit_stmts(block_parts(b)[0])
        visit_stmts(st)
        if tl is not None:
            walk_expr(tl, visit_e)
        # every remaining occurrence is a live use
        def check(x):
            if x[0] in ("path", "field") and id(x) not in allowed:
                c = occ(x)
                if c is not None and not (c[0] == "field" and x[0] == "path"):
                    bad.setdefault(c, f"{self.desc(c)} is used in {key[1]} outside an in-place update / black_box")
        walk_block((st, tl), check)
        return bad

    def desc(self, c):
        return c[1] if c[0] == "field" else c[-1]

    def lit_indices_in_bounds(self, key, e):
        ok = [True]
        def f(x):
            if x[0] == "index":
                c = self.resolve(key, scratch_name(x[1]))
                n = self.arr_len.get(c)
                n = self.consts.get(n, n) if isinstance(n, str) else n
                if not (strip(x[2])[0] == "lit" and isinstance(n, int) and strip(x[2])[1] < n):
                    ok[0] = False
        walk_expr(e, f)
        return ok[0]

    def update_ok(self, key, stmts, i, c):
        """None when `X[idx] = rhs` / `X[idx] op= rhs` can be dropped, else the reason"""
        s = stmts[i]
        place, op, rhs = strip(s[1]), s[2], s[3]
        name = scratch_name(place[1])
        if op is not None and op not in ("^", "|", "&"):
            return (f"the scratch memory is updated with `{op}=`, which can overflow (a panic in builds with overflow checks); "
                    "only wrapping / bitwise updates can be dropped")
        if not droppable_expr(rhs, set(), {name}) and not self.rhs_ok(rhs, name, place[2]):
            return "the value stored into the scratch memory is not built from wrapping / bitwise operations only"
        idx = strip(place[2])
        n = self.arr_len.get(c)
        nval = self.consts.get(n, n) if isinstance(n, str) else n
        if idx[0] == "lit":
            return None if isinstance(nval, int) and idx[1] < nval else "literal index out of bounds"
        if not is_path(idx):
            return "the index of the scratch update is not a variable or literal"
        v = idx[1][0]
        # nearest preceding assignment of v in the same block must be `v = (..) % LEN`
        for j in range(i - 1, -1, -1):
            t = stmts[j]
            assigned = (t[0] == "assign" and is_path(t[1], v)) or (t[0] == "let" and t[1] == ("name", v))
            if assigned:
                r = strip(t[3] if t[0] == "assign" else t[4])
                if (t[0] != "assign" or t[2] is None) and r[0] == "bin" and r[1] == "%":
                    m = strip(r[3])
                    mv = const_eval(m, self.consts)
                    if mv is not None and isinstance(nval, int) and 0 < mv <= nval and not has_call(r[2]):
                        return None
                return f"index `{v}` is not reduced modulo the length of the scratch memory"
            mentions = []
            walk_block(([t], None), lambda x: mentions.append(1) if is_path(x, v) and x[0] == "path" else None)
            if mentions and t[0] not in ("assign",):
                return f"index `{v}`: cannot see that it is in bounds"
        return f"index `{v}`: cannot see that it is in bounds"

    def rhs_ok(self, rhs, name, idx):
        """rhs with reads of the same scratch element allowed: X[idx].wrapping_add(1) etc."""
        def ok(e):
            e = strip(e)
            if e[0] == "index":
                return scratch_name(e[1]) == name and strip(e[2]) == strip(idx)
            if e[0] in ("lit",):
                return True
            if e[0] == "path":
                return len(e[1]) == 1
            if e[0] == "mcall":
                return e[2] in PURE_METHODS and ok(e[1]) and all(ok(a) for a in e[3])
            if e[0] == "bin":
                return e[1] in ("^", "|", "&") and ok(e[2]) and ok(e[3])
            if e[0] == "un":
                return e[1] == "!" and ok(e[2])
            if e[0] == "cast":
                return ok(e[1])
            return False
        return ok(rhs)

    def scratch_params(self, key):
        return {c[2] for c in self.scratch if c[0] == "param" and c[1] == key}

    # ---------------------------------------------------------------- body preparation
    def prepare(self, key):
        """body of `key` with scratch memory, dead code, log macros and debug assertions removed;
        returns ((stmts, tail), notes)"""
        if key in self.parse_errors:
            raise Unsupported(self.parse_errors[key])
        notes = dict(eliminated=[], scratch=[], skipped_macros=[])
        st, tl = self.bodies[key]
        st = [s for s in st if s[0] != "fn"]
        st, tl = self.drop_scratch(key, st, tl, notes)
        st, tl = self.drop_macros(key, st, tl, notes)
        st, tl = self.dce(key, st, tl, notes)
        return (st, tl), notes

    def touches_failed_scratch(self, key, x):
        n = scratch_name(x) if x[0] in ("path", "field") else None
        c = self.resolve(key, n) if n else None
        if c is not None and c not in self.scratch and c in self.why_not and not (c[0] == "field" and x[0] == "path"):
            return c
        return None

    def drop_scratch(self, key, st, tl, notes):
        S = self.scratch
        used = set()
        def occ(e):
            c = self.resolve(key, scratch_name(e))
            return c if c in S else None
        def fix_e(e):
            """expression with scratch arguments / field initialisers removed"""
            k = e[0]
            if k in ("lit", "bool", "path", "str", "macro"):
                return e
            if k in ("call", "mcall"):
                ck = self.callee_key(key, e)
                args = list(e[2] if k == "call" else e[3])
                if ck is not None:
                    sp = self.scratch_params(ck)
                    keep = []
                    for i, a in enumerate(args):
                        if i in sp:
                            c = occ(a)
                            if c is None:
                                raise Unsupported(f"argument {i} of {ck[1]} is not scratch memory")
                            used.add(c)
                        else:
                            keep.append(fix_e(a))
                    args = keep
                else:
                    args = [fix_e(a) for a in args]
                return ("call", fix_e(e[1]), args) if k == "call" else ("mcall", fix_e(e[1]), e[2], args)
            if k == "struct":
                fs = []
                for n, x in e[2]:
                    if ("field", n) in S:
                        used.add(("field", n)); continue
                    fs.append((n, fix_e(x)))
                return ("struct", e[1], fs)
            if k == "if":
                return ("if", fix_e(e[1]), fix_b(e[2]), fix_b(e[3]) if e[3] is not None else None)
            if k == "block":
                b = fix_b((e[1], e[2]))
                return ("block", b[0], b[1])
            if k in ("paren", "deref", "try"):
                return (k, fix_e(e[1]))
            if k == "cast":
                return (k, fix_e(e[1]), e[2])
            if k == "field":
                return (k, fix_e(e[1]), e[2])
            if k in ("un", "ref"):
                return (k, e[1], fix_e(e[2]))
            if k == "index":
                return (k, fix_e(e[1]), fix_e(e[2]))
            if k == "bin":
                return (k, e[1], fix_e(e[2]), fix_e(e[3]))
            if k in ("array", "tuple"):
                return (k, [fix_e(x) for x in e[1]])
            if k == "repeat":
                return (k, fix_e(e[1]), fix_e(e[2]))
            if k == "range":
                return (k, fix_e(e[1]) if e[1] is not None else None, fix_e(e[2]) if e[2] is not None else None, e[3])
            if k == "closure":
                return (k, e[1], fix_e(e[2]))
            raise Unsupported(f"expression kind {k}")
        def fix_b(b):
            s2, t2 = block_parts(b)
            return fix_stmts(s2), (fix_e(t2) if t2 is not None else None)
        def fix_stmts(stmts):
            out = []
            for s in stmts:
                if s[0] == "assign" and strip(s[1])[0] == "index" and occ(strip(s[1])[1]):
                    used.add(occ(strip(s[1])[1])); continue
                if s[0] == "expr" and s[1][0] == "call" and is_path(s[1][1], "black_box") and self.black_box_ok and len(s[1][2]) == 1:
                    cs = []
                    walk_expr(s[1][2][0], lambda x: cs.append(occ(x)) if x[0] in ("path", "field") and occ(x) else None)
                    if cs:
                        used.update(cs); continue
                if s[0] == "let" and s[1][0] == "name" and self.resolve(key, s[1][1]) in S:
                    used.add(self.resolve(key, s[1][1])); continue
                k = s[0]
                if k == "let":
                    out.append((k, s[1], s[2], s[3], fix_e(s[4]) if s[4] is not None else None))
                elif k == "const":
                    out.append((k, s[1], s[2], fix_e(s[3])))
                elif k == "assign":
                    out.append((k, fix_e(s[1]), s[2], fix_e(s[3])))
                elif k == "expr":
                    out.append((k, fix_e(s[1])))
                elif k == "for":
                    out.append((k, s[1], fix_e(s[2]), fix_b(s[3])))
                elif k == "while":
                    out.append((k, fix_e(s[1]), fix_b(s[2])))
                elif k == "loop":
                    out.append((k, fix_b(s[1])))
                elif k == "return":
                    out.append((k, fix_e(s[1]) if s[1] is not None else None))
                else:
                    out.append(s)
            return out
        st2 = fix_stmts(st)
        tl2 = fix_e(tl) if tl is not None else None
        # nothing of the scratch memory (nor of a failed candidate) may remain
        def check(x):
            c = self.touches_failed_scratch(key, x)
            if c is not None:
                raise Unsupported(f"scratch memory check failed for {self.desc(c)}: {self.why_not[c]}")
            if x[0] in ("path", "field") and occ(x) and not (x[0] == "path" and occ(x)[0] == "field"):
                raise Unsupported(f"scratch memory {self.desc(occ(x))} used in an unexpected position")
        walk_block((st2, tl2), check)
        notes["scratch"] = sorted(self.scratch_desc[c] for c in used)
        return st2, tl2

    def drop_macros(self, key, st, tl, notes):
        def fix_stmts(stmts):
            out = []
            for s in stmts:
                e = s[1] if s[0] == "expr" else None
                if e is not None and e[0] == "macro":
                    name = e[1]
                    if name in LOG_MACROS or name in ("debug_assert", "debug_assert_eq", "debug_assert_ne"):
                        if name in LOG_MACROS and name not in self.log_ok:
                            raise Unsupported(f"{name}! is not the crate's forwarder to the log crate")
                        try:
                            args = macro_arg_exprs(e[2], self.macros)
                        except Unsupported as ex:
                            raise Unsupported(f"arguments of {name}! not understood: {ex}")
                        for a in args:
                            if has_call(a):
                                raise Unsupported(f"an argument of {name}! contains a call; whether it is evaluated depends on the "
                                                  f"build configuration ({'log feature / level' if name in LOG_MACROS else 'debug assertions'})")
                        notes["skipped_macros"].append(name + "!")
                        continue
                k = s[0]
                if k == "for":
                    out.append((k, s[1], s[2], fix_b(s[3])))
                elif k == "while":
                    out.append((k, s[1], fix_b(s[2])))
                elif k == "loop":
                    out.append((k, fix_b(s[1])))
                elif k == "expr" and e[0] == "if":
                    out.append((k, fix_if(e)))
                elif k == "expr" and e[0] == "block":
                    b = fix_b((e[1], e[2]))
                    out.append((k, ("block", b[0], b[1])))
                else:
                    out.append(s)
            return out
        def fix_if(e):
            el = e[3]
            if el is not None:
                s2, t2 = block_parts(el)
                if not s2 and t2 is not None and t2[0] == "if":
                    el = ([], fix_if(t2))
                else:
                    el = fix_b(el)
            return ("if", e[1], fix_b(e[2]), el)
        def fix_b(b):
            s2, t2 = block_parts(b)
            return fix_stmts(s2), t2
        st2 = fix_stmts(st)
        # a log macro anywhere else (expression position) is not understood
        def check(x):
            if x[0] == "macro" and x[1] != "assert":
                raise Unsupported(f"macro {x[1]}! in an unexpected position")
        walk_block((st2, tl), check)
        return st2, tl

    def dce(self, key, st, tl, notes):
        fn = self.methods[key]
        pure_fns = {n for n, (k, f) in self.nested.items() if k == key}
        params = {p[0] for p in fn.params}
        # candidates: locals declared exactly once at any depth by a plain `let`
        decl = {}
        def fs(s):
            if s[0] == "let" and s[1][0] == "name":
                decl[s[1][1]] = decl.get(s[1][1], 0) + 1
            if s[0] == "let" and s[1][0] == "tuple":
                for n in s[1][1]:
                    decl[n] = 99
            if s[0] == "for":
                for n in ([s[1][1]] if s[1][0] == "name" else s[1][1]):
                    decl[n] = 99
        walk_block((st, tl), lambda x: None, fs)
        D = {n for n, c in decl.items() if c == 1 and n not in params and n != "_"}
        def reads(e, acc):
            walk_expr(e, lambda x: acc.add(x[1][0]) if x[0] == "path" and len(x[1]) == 1 else None)
        def live_scan(stmts, tail, D):
            """variables of D with a live use"""
            live = set()
            def use(e):
                r = set(); reads(e, r); live.update(r & D)
            def vs(stmts):
                for s in stmts:
                    k = s[0]
                    if k == "let" and s[1][0] == "name" and s[1][1] in D:
                        if s[4] is not None and not droppable_expr(s[4], pure_fns):
                            live.add(s[1][1])
                        # reads in the initialiser flow into a dead variable: not live
                        continue
                    if k == "assign" and is_path(s[1]) and strip(s[1])[1][0] in D:
                        if not droppable_expr(s[3], pure_fns):
                            live.add(strip(s[1])[1][0])
                        continue
                    if k == "expr" and s[1][0] == "call" and is_path(s[1][1], "black_box") and self.black_box_ok \
                            and len(s[1][2]) == 1 and droppable_expr(s[1][2][0], pure_fns):
                        continue
                    if k == "for":
                        use(s[2]); vs(block_parts(s[3])[0])
                        if block_parts(s[3])[1] is not None:
                            use(block_parts(s[3])[1])
                        continue
                    if k == "expr" and s[1][0] == "if":
                        vif(s[1]); continue
                    es, bs = stmt_parts(s)
                    for e in es:
                        use(e)
                    for b in bs:
                        s2, t2 = block_parts(b)
                        vs(s2)
                        if t2 is not None:
                            use(t2)
            def vif(e):
                use(e[1])
                for b in (e[2], e[3]):
                    if b is None:
                        continue
                    s2, t2 = block_parts(b)
                    vs(s2)
                    if t2 is not None:
                        if t2[0] == "if":
                            vif(t2)
                        else:
                            use(t2)
            vs(stmts)
            if tail is not None:
                use(tail)
            return live
        while True:
            live = live_scan(st, tl, D)
            if not live:
                break
            D -= live
        if not D:
            return st, tl
        def drop(stmts):
            out = []
            for s in stmts:
                k = s[0]
                if k == "let" and s[1][0] == "name" and s[1][1] in D:
                    continue
                if k == "assign" and is_path(s[1]) and strip(s[1])[1][0] in D:
                    continue
                if k == "expr" and s[1][0] == "call" and is_path(s[1][1], "black_box") and self.black_box_ok and len(s[1][2]) == 1:
                    r = set(); reads(s[1][2][0], r)
                    if r & D and droppable_expr(s[1][2][0], pure_fns):
                        continue
                if k == "for":
                    s2, t2 = block_parts(s[3])
                    body = drop(s2)
                    if not body and t2 is None and s2 and droppable_range(s[2]):
                        continue          # bounded loop whose body only updated dead variables
                    out.append((k, s[1], s[2], (body, t2)))
                    continue
                if k == "expr" and s[1][0] == "if":
                    out.append((k, drop_if(s[1])))
                    continue
                out.append(s)
            return out
        def droppable_range(it):
            it = strip(it)
            return it[0] == "range" and it[1] is not None and it[2] is not None and \
                all(strip(x)[0] in ("lit", "path", "field") and not has_call(x) for x in (it[1], it[2]))
        def drop_if(e):
            el = e[3]
            if el is not None:
                s2, t2 = block_parts(el)
                el = (drop(s2), drop_if(t2) if (t2 is not None and t2[0] == "if") else t2)
            s1, t1 = block_parts(e[2])
            return ("if", e[1], (drop(s1), t1), el)
        st2 = drop(st)
        # no reference to an eliminated variable may remain
        left = set()
        walk_block((st2, tl), lambda x: left.add(x[1][0]) if x[0] == "path" and len(x[1]) == 1 and x[1][0] in D else None)
        if left:
            raise Unsupported(f"dead-code elimination left references to {sorted(left)}")
        notes["eliminated"] = sorted(D)
        return st2, tl
