"""rsfront.py — a small front end for the subset of Rust that the generator crates are written in:
lexer, item scanner, `macro_rules!` expander, expression / statement parser.  Used by rs2lean.py (the translator that
regenerates Lean definitions from /repo's current source on every run).  Anything outside the subset raises
`Unsupported` — the caller then reports that the function left the translatable fragment (it never guesses)."""
import re

class Unsupported(Exception):
    pass

# ------------------------------------------------------------------ lexer
PUNCT = ["<<=", ">>=", "...", "..=", "::", "->", "=>", "==", "!=", "<=", ">=", "&&", "||", "<<", ">>", "+=", "-=",
         "*=", "/=", "%=", "^=", "|=", "&=", ".."]
TOKEN_RE = re.compile(r"""
    (?P<ws>\s+)
  | (?P<lc>//[^\n]*)
  | (?P<bc>/\*.*?\*/)
  | (?P<str>b?"(?:\\.|[^"\\])*")
  | (?P<rstr>r\#*".*?"\#*)
  | (?P<char>b?'(?:\\.|[^'\\])')
  | (?P<life>'[A-Za-z_][A-Za-z0-9_]*)
  | (?P<num>0[xX][0-9a-fA-F_]+(?:[iu](?:8|16|32|64|128|size))?|0[bB][01_]+(?:[iu](?:8|16|32|64|128|size))?|0[oO][0-7_]+(?:[iu](?:8|16|32|64|128|size))?|[0-9][0-9_]*(?:[iu](?:8|16|32|64|128|size))?)
  | (?P<id>[A-Za-z_][A-Za-z0-9_]*)
  | (?P<p><<=|>>=|\.\.\.|\.\.=|::|->|=>|==|!=|<=|>=|&&|\|\||<<|>>|\+=|-=|\*=|/=|%=|\^=|\|=|&=|\.\.|[-+*/%^!&|=<>@.,;:\#$?~(){}\[\]])
""", re.X | re.S)

def lex(src):
    out, pos = [], 0
    while pos < len(src):
        m = TOKEN_RE.match(src, pos)
        if not m:
            raise Unsupported(f"lexer: cannot read {src[pos:pos+20]!r}")
        pos = m.end()
        k = m.lastgroup
        if k in ("ws", "lc", "bc"):
            continue
        out.append((k, m.group(k)))
    return out

OPEN = {"(": ")", "[": "]", "{": "}"}

def match_close(toks, i):
    """toks[i] is an opening bracket; returns index of the matching closer"""
    depth = 0
    for j in range(i, len(toks)):
        t = toks[j][1]
        if toks[j][0] == "p":
            if t in OPEN:
                depth += 1
            elif t in (")", "]", "}"):
                depth -= 1
                if depth == 0:
                    return j
    raise Unsupported("unbalanced brackets")

def parse_int(text):
    m = re.match(r"^(0[xX][0-9a-fA-F_]+|0[bB][01_]+|0[oO][0-7_]+|[0-9][0-9_]*)((?:[iu](?:8|16|32|64|128|size))?)$", text)
    body, suf = m.group(1).replace("_", ""), m.group(2) or None
    return int(body, 0), suf

# ------------------------------------------------------------------ items
class Fn:
    def __init__(self, name, params, ret, body, generics):
        self.name, self.params, self.ret, self.body, self.generics = name, params, ret, body, generics

class File:
    def __init__(self):
        self.macros = {}     # name -> [(matcher tokens, body tokens)]
        self.consts = {}     # name -> (type tokens, expr tokens)
        self.structs = {}    # name -> [(field, type tokens)]  (tuple structs: fields "0", "1", …)
        self.impls = []      # (trait or None, type name, {fn name: Fn}, {assoc const/type name: tokens})
        self.impl_types = [] # parallel to impls: {associated type name: type tokens}
        self.types = {}      # `type X = …;` aliases: name -> type tokens
        self.traits = {}     # trait name -> File of its items (default methods)
        self.fns = {}

def skip_attrs(toks, i):
    while i < len(toks) and toks[i][1] == "#":
        j = i + 1
        if toks[j][1] == "!":
            j += 1
        j = match_close(toks, j)
        i = j + 1
    return i

def parse_macro_rules(toks, i):
    """toks[i] == 'macro_rules', returns (name, arms, next index)"""
    assert toks[i + 1][1] == "!"
    name = toks[i + 2][1]
    o = i + 3
    c = match_close(toks, o)
    arms, j = [], o + 1
    while j < c:
        mo = j
        mc = match_close(toks, mo)
        assert toks[mc + 1][1] == "=>", "macro arm"
        bo = mc + 2
        bc = match_close(toks, bo)
        arms.append((toks[mo + 1:mc], toks[bo + 1:bc]))
        j = bc + 1
        if j < c and toks[j][1] == ";":
            j += 1
    nxt = c + 1
    if nxt < len(toks) and toks[nxt][1] == ";":
        nxt += 1
    return name, arms, nxt

def split_top(toks, sep=","):
    """split a token list at top-level separators"""
    parts, cur, depth, angle = [], [], 0, 0
    for t in toks:
        if t[0] == "p":
            if t[1] in OPEN:
                depth += 1
            elif t[1] in (")", "]", "}"):
                depth -= 1
        if depth == 0 and t[0] == "p" and t[1] == sep:
            parts.append(cur); cur = []
        else:
            cur.append(t)
    if cur:
        parts.append(cur)
    return parts

def parse_fn(toks, i):
    """toks[i] == 'fn'. returns (Fn, next)"""
    name = toks[i + 1][1]
    j = i + 2
    generics = []
    if toks[j][1] == "<":
        depth = 0
        k = j
        while True:
            if toks[k][1] == "<":
                depth += 1
            elif toks[k][1] == ">":
                depth -= 1
            elif toks[k][1] == ">>":
                depth -= 2
            if depth <= 0:
                break
            k += 1
        generics = toks[j + 1:k]
        j = k + 1
    assert toks[j][1] == "(", f"fn {name}: params"
    pc = match_close(toks, j)
    params = []
    for p in split_top(toks[j + 1:pc]):
        p = [t for t in p if t[0] != "life"]
        txt = [t[1] for t in p]
        if txt in (["self"], ["mut", "self"]):
            params.append(("self", "value"))
        elif txt == ["&", "self"]:
            params.append(("self", "ref"))
        elif txt == ["&", "mut", "self"]:
            params.append(("self", "mut"))
        else:
            k = 0
            if txt[0] == "mut":
                k = 1
            assert p[k + 1][1] == ":", f"fn {name}: parameter {txt}"
            params.append((p[k][1], p[k + 2:]))
    j = pc + 1
    ret = None
    if toks[j][1] == "->":
        k = j + 1
        depth = 0
        while not (depth == 0 and toks[k][1] in ("{", "where", ";")):
            if toks[k][0] == "p" and toks[k][1] in ("[", "("):
                depth += 1
            elif toks[k][0] == "p" and toks[k][1] in ("]", ")"):
                depth -= 1
            k += 1
        ret = toks[j + 1:k]
        j = k
    if toks[j][1] == "where":
        while toks[j][1] not in ("{", ";"):
            j += 1
    if toks[j][1] == ";":
        return Fn(name, params, ret, None, generics), j + 1
    bc = match_close(toks, j)
    return Fn(name, params, ret, toks[j + 1:bc], generics), bc + 1

def parse_items(toks, f=None):
    f = f or File()
    i = 0
    n = len(toks)
    while i < n:
        i = skip_attrs(toks, i)
        if i >= n:
            break
        # visibility
        if toks[i][1] == "pub":
            i += 1
            if toks[i][1] == "(":
                i = match_close(toks, i) + 1
        t = toks[i][1]
        if t == "macro_rules":
            name, arms, i = parse_macro_rules(toks, i)
            f.macros[name] = arms
        elif t in ("use", "extern", "type"):
            depth = 0
            start = i
            while not (toks[i][1] == ";" and depth == 0):
                if toks[i][0] == "p" and toks[i][1] in OPEN:
                    depth += 1
                elif toks[i][0] == "p" and toks[i][1] in (")", "]", "}"):
                    depth -= 1
                i += 1
            if t == "type" and toks[start + 1][0] == "id":
                eq = next((k for k in range(start, i) if toks[k][1] == "="), None)
                if eq is not None and eq == start + 2:
                    f.types[toks[start + 1][1]] = toks[eq + 1:i]
            i += 1
        elif t == "mod":
            if toks[i + 2][1] == ";":
                i += 3
            else:
                i = match_close(toks, i + 2) + 1      # inline modules (tests) are skipped
        elif t in ("const", "static"):
            if toks[i + 1][1] == "fn":
                fn, i = parse_fn(toks, i + 1)
                f.fns[fn.name] = fn
                continue
            if toks[i + 1][1] == "mut":       # `static mut X: T = e;`
                i += 1
            name = toks[i + 1][1]
            j = i + 2
            if toks[j][1] != ":":
                raise Unsupported(f"const/static item {name}")
            k = j + 1
            while toks[k][1] != "=":
                k += 1
            e = k + 1
            depth = 0
            while not (toks[e][1] == ";" and depth == 0):
                if toks[e][1] in OPEN:
                    depth += 1
                elif toks[e][1] in (")", "]", "}"):
                    depth -= 1
                e += 1
            f.consts[name] = (toks[j + 1:k], toks[k + 1:e])
            i = e + 1
        elif t == "struct":
            name = toks[i + 1][1]
            j = i + 2
            if toks[j][1] == "<":
                while toks[j][1] != ">":
                    j += 1
                j += 1
            if toks[j][1] == "where":
                while toks[j][1] not in ("{", "(", ";"):
                    j += 1
            if toks[j][1] == "{":
                c = match_close(toks, j)
                fields = []
                for p in split_top(toks[j + 1:c]):
                    p = p[skip_attrs(p, 0):]
                    if not p:
                        continue
                    if p[0][1] == "pub":
                        p = p[1:]
                        if p[0][1] == "(":
                            p = p[match_close(p, 0) + 1:]
                    fields.append((p[0][1], p[2:]))
                f.structs[name] = fields
                i = c + 1
            elif toks[j][1] == "(":
                c = match_close(toks, j)
                fields = []
                for k, p in enumerate(split_top(toks[j + 1:c])):
                    if p and p[0][1] == "pub":
                        p = p[1:]
                    fields.append((str(k), p))
                f.structs[name] = fields
                i = c + 1
                if toks[i][1] == ";":
                    i += 1
            else:
                i = j + 1
        elif t == "enum" or t == "trait" or t == "union":
            j = i
            while toks[j][1] != "{":
                j += 1
            c = match_close(toks, j)
            if t == "trait" and toks[i + 1][0] == "id":
                # default methods of a trait (rand_core's SeedableRng): kept for the translator, never an error here
                try:
                    f.traits[toks[i + 1][1]] = parse_items(toks[j + 1:c])
                except (Unsupported, AssertionError, IndexError):
                    pass
            i = c + 1
        elif t == "impl":
            j = i + 1
            if toks[j][1] == "<":
                depth = 0
                while True:
                    if toks[j][1] == "<":
                        depth += 1
                    elif toks[j][1] == ">":
                        depth -= 1
                    elif toks[j][1] == ">>":
                        depth -= 2
                    j += 1
                    if depth <= 0:
                        break
            hdr = []
            while toks[j][1] != "{":
                hdr.append(toks[j][1]); j += 1
            if "where" in hdr:
                hdr = hdr[:hdr.index("where")]
            if "for" in hdr:
                k = hdr.index("for")
                trait, ty = "".join(hdr[:k]), hdr[k + 1]
            else:
                trait, ty = None, hdr[0]
            c = match_close(toks, j)
            inner = parse_items(toks[j + 1:c])
            f.impls.append((trait, ty, inner.fns, inner.consts))
            f.impl_types.append(inner.types)
            i = c + 1
        elif t == "fn":
            fn, i = parse_fn(toks, i)
            f.fns[fn.name] = fn
        elif t in ("unsafe", "async"):
            i += 1
        elif t == ";":
            i += 1
        elif toks[i][0] == "id" and i + 2 < n and toks[i + 1][1] == "!" and toks[i + 2][1] in OPEN:
            i = match_close(toks, i + 2) + 1          # item-position macro invocation (doc_comment! …): skipped
        else:
            raise Unsupported(f"item starting with `{t}`")
    return f

# ------------------------------------------------------------------ macro expansion
_expansion_counter = [0]

def match_arm(matcher, args):
    """returns bindings or None. Fragments end at the next literal matcher token at depth 0 (or at the end)."""
    b, i, j = {}, 0, 0
    while i < len(matcher):
        if matcher[i][1] == "$" and i + 3 < len(matcher) + 1 and matcher[i + 2][1] == ":":
            name = matcher[i + 1][1]
            nxt = matcher[i + 4] if i + 4 < len(matcher) else None
            depth, k = 0, j
            while k < len(args):
                t = args[k]
                if depth == 0 and nxt is not None and t == nxt:
                    break
                if depth == 0 and t[0] == "p" and t[1] in (",", ";") and matcher[i + 3][1] in ("expr", "ident", "ty", "literal"):
                    break
                if t[0] == "p" and t[1] in OPEN:
                    depth += 1
                elif t[0] == "p" and t[1] in (")", "]", "}"):
                    depth -= 1
                k += 1
            if k == j:
                return None
            b[name] = args[j:k]
            j = k
            i += 4
        else:
            if matcher[i][1] in OPEN:
                # nested group in the matcher: must match the same bracket in args
                mc = match_close(matcher, i)
                if j >= len(args) or args[j][1] != matcher[i][1]:
                    return None
                ac = match_close(args, j)
                sub = match_arm(matcher[i + 1:mc], args[j + 1:ac])
                if sub is None:
                    return None
                b.update(sub)
                i, j = mc + 1, ac + 1
                continue
            if j >= len(args) or args[j] != matcher[i]:
                return None
            i += 1; j += 1
    # allow a trailing comma in the invocation
    if j < len(args) and args[j][1] == "," and j + 1 == len(args):
        j += 1
    return b if j == len(args) else None

def bound_names(body):
    """identifiers bound by let / for / const inside a macro body (hygiene: they are renamed per expansion)"""
    names = set()
    for k, t in enumerate(body):
        if t[1] in ("let", "for", "const") and t[0] == "id":
            j = k + 1
            if body[j][1] == "mut":
                j += 1
            if body[j][0] == "id" and (k == 0 or body[k - 1][1] != "$"):
                names.add(body[j][1])
    return names

def expand(macros, name, args):
    arms = macros.get(name)
    if arms is None:
        raise Unsupported(f"unknown macro {name}!")
    for matcher, body in arms:
        b = match_arm(matcher, args)
        if b is None:
            continue
        _expansion_counter[0] += 1
        tag = f"__m{_expansion_counter[0]}"
        ren = bound_names(body)
        out, i = [], 0
        while i < len(body):
            t = body[i]
            if t[1] == "$" and i + 1 < len(body) and body[i + 1][0] == "id" and body[i + 1][1] in b:
                sub = b[body[i + 1][1]]
                # an expr fragment is one operand: keep it grouped
                out.append(("p", "(")) if len(sub) > 1 and name_is_exprfrag(matcher, body[i + 1][1]) else None
                out.extend(sub)
                out.append(("p", ")")) if len(sub) > 1 and name_is_exprfrag(matcher, body[i + 1][1]) else None
                i += 2
            elif t[0] == "id" and t[1] in ren and (i == 0 or body[i - 1][1] not in (".", "::")):
                out.append(("id", t[1] + tag)); i += 1
            else:
                out.append(t); i += 1
        return out
    raise Unsupported(f"no arm of {name}! matches the invocation")

def name_is_exprfrag(matcher, nm):
    for i in range(len(matcher) - 3):
        if matcher[i][1] == "$" and matcher[i + 1][1] == nm and matcher[i + 2][1] == ":":
            return matcher[i + 3][1] == "expr"
    return False

# ------------------------------------------------------------------ expression / statement parser
BINPREC = {"||": 1, "&&": 2, "==": 3, "!=": 3, "<": 3, ">": 3, "<=": 3, ">=": 3, "|": 4, "^": 5, "&": 6,
           "<<": 7, ">>": 7, "+": 8, "-": 8, "*": 9, "/": 9, "%": 9}
ASSIGN_OPS = {"=": None, "+=": "+", "-=": "-", "*=": "*", "^=": "^", "|=": "|", "&=": "&", "<<=": "<<", ">>=": ">>",
              "/=": "/", "%=": "%"}

class Parser:
    def __init__(self, toks, macros):
        self.t, self.i, self.macros = list(toks), 0, dict(macros)

    def peek(self, k=0):
        return self.t[self.i + k][1] if self.i + k < len(self.t) else None
    def kind(self, k=0):
        return self.t[self.i + k][0] if self.i + k < len(self.t) else None
    def eat(self, s=None):
        tok = self.t[self.i]
        if s is not None and tok[1] != s:
            raise Unsupported(f"expected `{s}`, found `{tok[1]}` near {' '.join(x[1] for x in self.t[max(0,self.i-6):self.i+4])}")
        self.i += 1
        return tok[1]
    def done(self):
        return self.i >= len(self.t)

    # ---- types (kept as strings)
    def parse_type(self):
        out, depth = [], 0
        while not self.done():
            p = self.peek()
            if depth == 0 and p in (",", ";", "=", ")", "{", "}", "]") :
                break
            if depth == 0 and p in (">", ">>") :
                break
            if p in ("(", "[", "<"):
                depth += 1
            elif p in (")", "]", ">"):
                depth -= 1
            elif p == ">>":
                depth -= 2
            out.append(self.eat())
        return "".join(out)

    def parse_cast_type(self):
        out = []
        if self.peek() in ("*",):
            raise Unsupported("pointer cast")
        out.append(self.eat())
        while self.peek() == "::":
            out.append(self.eat()); out.append(self.eat())
        if self.peek() == "<" and out[-1] not in ("u8", "u16", "u32", "u64", "u128", "usize", "i8", "i16", "i32", "i64", "i128", "isize"):
            depth = 0
            while True:
                p = self.eat()
                out.append(p)
                if p == "<":
                    depth += 1
                elif p == ">":
                    depth -= 1
                if depth == 0:
                    break
        return "".join(out)

    # ---- blocks and statements
    def parse_block_body(self):
        """statements until the end of the token list; returns (stmts, tail expr or None)"""
        stmts, tail = [], None
        while not self.done():
            if self.peek() == ";":
                self.eat(); continue
            if self.peek() == "#":
                j = skip_attrs(self.t, self.i)
                names = {self.t[k + 2][1] for k in range(self.i, j) if self.t[k][1] == "#" and k + 2 < j and self.t[k + 1][1] == "["}
                if names & {"cfg", "cfg_attr"}:
                    # conditional compilation inside a function body: which statements exist depends on the build configuration
                    raise Unsupported("#[cfg] on a statement")
                self.i = j
                continue
            s = self.parse_stmt()
            if s[0] == "splice":
                stmts.extend(s[1])
                if s[2] is not None:
                    if self.done():
                        tail = s[2]
                    else:
                        stmts.append(("expr", s[2]))
                continue
            if s[0] == "exprnosemi":
                if self.done():
                    tail = s[1]
                else:
                    stmts.append(("expr", s[1]))
                continue
            stmts.append(s)
        return stmts, tail

    def parse_braced(self):
        assert self.peek() == "{", f"expected block, found {self.peek()}"
        c = match_close(self.t, self.i)
        sub = Parser(self.t[self.i + 1:c], self.macros)
        self.i = c + 1
        body = sub.parse_block_body()
        self.macros.update({k: v for k, v in sub.macros.items() if k not in self.macros}) if False else None
        return body

    def parse_stmt(self):
        p = self.peek()
        if p == "macro_rules":
            name, arms, nxt = parse_macro_rules(self.t, self.i)
            self.i = nxt
            self.macros[name] = arms
            return ("splice", [], None)
        if p == "fn":
            fn, nxt = parse_fn(self.t, self.i)
            self.i = nxt
            return ("fn", fn)
        if p == "let":
            self.eat()
            mut = False
            if self.peek() == "mut":
                self.eat(); mut = True
            if self.peek() == "(":
                # tuple pattern
                c = match_close(self.t, self.i)
                names = []
                for part in split_top(self.t[self.i + 1:c]):
                    part = [x for x in part if x[1] != "mut"]
                    if len(part) != 1:
                        raise Unsupported("nested pattern in let")
                    names.append(part[0][1])
                self.i = c + 1
                pat = ("tuple", names)
            elif self.peek() == "[" or (self.kind() == "id" and self.peek(1) == "{" and self.peek()[:1].isupper()):
                # irrefutable array / struct patterns of plain bindings, desugared:
                #   let [a, b] = e;        =>  let p = e; let a = p[0]; let b = p[1];
                #   let S { f, g: h } = P; =>  let f = P.f; let h = P.g;       (P a place: a path, `*path`)
                is_arr = self.peek() == "["
                if not is_arr:
                    self.eat()
                c = match_close(self.t, self.i)
                binds = []
                for k, part in enumerate(split_top(self.t[self.i + 1:c])):
                    pm = [x for x in part if x[1] != "mut"]
                    pmut = len(pm) != len(part)
                    if is_arr:
                        if len(pm) != 1 or pm[0][0] != "id":
                            raise Unsupported("nested pattern in let")
                        binds.append((pm[0][1], k, pmut))
                    else:
                        if len(pm) == 1 and pm[0][0] == "id":
                            binds.append((pm[0][1], pm[0][1], pmut))
                        elif len(pm) == 3 and pm[1][1] == ":" and pm[0][0] == "id" and pm[2][0] == "id":
                            binds.append((pm[2][1], pm[0][1], pmut))
                        else:
                            raise Unsupported("nested pattern in let")
                self.i = c + 1
                if self.peek() == ":":
                    self.eat(); self.parse_type()
                self.eat("=")
                init = self.parse_expr()
                self.eat(";")
                if mut:
                    raise Unsupported("let mut with a pattern")
                out = []
                if is_arr:
                    tmp = f"pat_{c}"          # position of the pattern among the function's tokens
                    out.append(("let", ("name", tmp), False, None, init))
                    for n, k, pmut in binds:
                        if n != "_":
                            out.append(("let", ("name", n), pmut, None, ("index", ("path", [tmp]), ("lit", k, None))))
                else:
                    i0 = init
                    while i0[0] == "paren":
                        i0 = i0[1]
                    if not (i0[0] == "path" or (i0[0] == "deref" and i0[1][0] == "path")):
                        raise Unsupported("struct pattern in let whose right-hand side is not a place")
                    for n, fld, pmut in binds:
                        out.append(("let", ("name", n), pmut, None, ("field", init if init[0] == "path" else ("paren", i0), fld)))
                return ("splice", out, None)
            else:
                pat = ("name", self.eat())
            ty = None
            if self.peek() == ":":
                self.eat(); ty = self.parse_type()
            init = None
            if self.peek() == "=":
                self.eat(); init = self.parse_expr()
            self.eat(";")
            return ("let", pat, mut, ty, init)
        if p == "const":
            self.eat()
            name = self.eat()
            self.eat(":")
            ty = self.parse_type()
            self.eat("=")
            e = self.parse_expr()
            self.eat(";")
            return ("const", name, ty, e)
        if p == "for":
            self.eat()
            if self.peek() == "(":
                c = match_close(self.t, self.i)
                names = [x[1] for x in self.t[self.i + 1:c] if x[0] == "id" and x[1] != "mut"]
                self.i = c + 1
                var = ("tuple", names)
            else:
                if self.peek() == "&":
                    self.eat()
                var = ("name", self.eat())
            self.eat("in")
            it = self.parse_expr(nostruct=True)
            body = self.parse_braced()
            return ("for", var, it, body)
        if p == "while":
            self.eat()
            c = self.parse_expr(nostruct=True)
            body = self.parse_braced()
            return ("while", c, body)
        if p == "loop":
            self.eat()
            body = self.parse_braced()
            return ("loop", body)
        if p == "return":
            self.eat()
            e = None
            if self.peek() not in (";", None):
                e = self.parse_expr()
            if self.peek() == ";":
                self.eat()
            return ("return", e)
        if p == "break":
            self.eat()
            if self.peek() == ";":
                self.eat()
            return ("break",)
        if p == "continue":
            self.eat()
            if self.peek() == ";":
                self.eat()
            return ("continue",)
        # statement macro: expands to statements
        if self.kind() == "id" and self.peek(1) == "!" and self.peek(2) in ("(", "[", "{") and self.peek() in self.macros:
            name = self.eat(); self.eat("!")
            c = match_close(self.t, self.i)
            args = self.t[self.i + 1:c]
            self.i = c + 1
            toks = expand(self.macros, name, args)
            # a macro body that is one `{ … }` group is a block expression
            if toks and toks[0][1] == "{" and match_close(toks, 0) == len(toks) - 1:
                toks = toks[1:-1]
            sub = Parser(toks, self.macros)
            stmts, tail = sub.parse_block_body()
            # an expression macro in operand position continues as an expression (e.g. `m!(x).foo()`): not needed here
            if self.peek() == ";":
                self.eat()
                if tail is not None:
                    stmts.append(("expr", tail)); tail = None
            return ("splice", stmts, tail)
        if p == "if":
            e = self.parse_if()
            return ("exprnosemi", e)
        if p == "{":
            stmts, tail = self.parse_braced()
            return ("exprnosemi", ("block", stmts, tail))
        if p == "unsafe" and self.peek(1) == "{":
            return ("exprnosemi", self.parse_primary(False))
        e = self.parse_expr()
        q = self.peek()
        if q in ASSIGN_OPS:
            self.eat()
            rhs = self.parse_expr()
            if not self.done():
                self.eat(";")
            return ("assign", e, ASSIGN_OPS[q], rhs)
        if q == ";":
            self.eat()
            return ("expr", e)
        if q is None:
            return ("exprnosemi", e)
        raise Unsupported(f"statement: unexpected `{q}` after expression")

    def parse_if(self):
        self.eat("if")
        if self.peek() == "let":
            # `if let Some(x) = e { … } else { … }`: only this pattern shape is kept (("iflet", ctor, var, e, then, else))
            self.eat()
            ctor = self.eat()
            if ctor not in ("Some", "Ok") or self.peek() != "(":
                raise Unsupported("if let")
            self.eat("(")
            if self.peek() == "mut":
                self.eat()
            var = self.eat()
            self.eat(")")
            self.eat("=")
            e = self.parse_expr(nostruct=True)
            th = self.parse_braced()
            el = None
            if self.peek() == "else":
                self.eat()
                if self.peek() == "if":
                    el = ([], self.parse_if())
                else:
                    el = self.parse_braced()
            return ("iflet", ctor, var, e, th, el)
        c = self.parse_expr(nostruct=True)
        th = self.parse_braced()
        el = None
        if self.peek() == "else":
            self.eat()
            if self.peek() == "if":
                e2 = self.parse_if()
                el = ([], e2)
            else:
                el = self.parse_braced()
        return ("if", c, th, el)

    # ---- expressions
    def parse_expr(self, nostruct=False, minprec=0):
        lhs = self.parse_unary(nostruct)
        while True:
            op = self.peek()
            if op == "as":
                self.eat()
                ty = self.parse_cast_type()
                lhs = ("cast", lhs, ty)
                continue
            if op in ("..", "..="):
                if minprec > 0:
                    break
                self.eat()
                hi = None
                if self.peek() not in (None, ")", "]", "}", ",", ";", "{"):
                    hi = self.parse_expr(nostruct, 1)
                lhs = ("range", lhs, hi, op == "..=")
                continue
            if op in BINPREC and self.kind() == "p" and BINPREC[op] >= max(minprec, 1):
                prec = BINPREC[op]
                self.eat()
                rhs = self.parse_expr(nostruct, prec + 1)
                lhs = ("bin", op, lhs, rhs)
                continue
            break
        return lhs

    def parse_unary(self, nostruct):
        p = self.peek()
        if p == "!" :
            self.eat(); return ("un", "!", self.parse_unary(nostruct))
        if p == "-":
            self.eat(); return ("un", "-", self.parse_unary(nostruct))
        if p == "*":
            self.eat(); return ("deref", self.parse_unary(nostruct))
        if p == "&" or p == "&&":
            self.eat()
            mut = False
            if self.peek() == "mut":
                self.eat(); mut = True
            e = ("ref", mut, self.parse_unary(nostruct))
            return ("ref", False, e) if p == "&&" else e
        return self.parse_postfix(self.parse_primary(nostruct), nostruct)

    def parse_args(self):
        self.eat("(")
        args = []
        while self.peek() != ")":
            args.append(self.parse_expr())
            if self.peek() == ",":
                self.eat()
        self.eat(")")
        return args

    def parse_postfix(self, e, nostruct):
        while True:
            p = self.peek()
            if p == ".":
                self.eat()
                name = self.eat()
                if self.peek() == "::":
                    # turbofish
                    self.eat()
                    depth = 0
                    while True:
                        q = self.eat()
                        if q == "<":
                            depth += 1
                        elif q == ">":
                            depth -= 1
                        if depth == 0:
                            break
                if self.peek() == "(":
                    e = ("mcall", e, name, self.parse_args())
                else:
                    e = ("field", e, name)
            elif p == "[":
                self.eat()
                idx = self.parse_expr()
                self.eat("]")
                e = ("index", e, idx)
            elif p == "(":
                e = ("call", e, self.parse_args())
            elif p == "?":
                self.eat()
                e = ("try", e)
            else:
                return e

    def parse_primary(self, nostruct):
        k, p = self.kind(), self.peek()
        if k == "num":
            self.eat()
            v, suf = parse_int(p)
            return ("lit", v, suf)
        if p == "(":
            c = match_close(self.t, self.i)
            parts = split_top(self.t[self.i + 1:c])
            inner = self.t[self.i + 1:c]
            self.i = c + 1
            if len(parts) == 1 and not (inner and inner[-1][1] == ","):
                return ("paren", Parser(parts[0], self.macros).parse_expr_all())
            return ("tuple", [Parser(x, self.macros).parse_expr_all() for x in parts])
        if p == "[":
            c = match_close(self.t, self.i)
            inner = self.t[self.i + 1:c]
            self.i = c + 1
            semi = split_top(inner, ";")
            if len(semi) == 2:
                return ("repeat", Parser(semi[0], self.macros).parse_expr_all(), Parser(semi[1], self.macros).parse_expr_all())
            return ("array", [Parser(x, self.macros).parse_expr_all() for x in split_top(inner)])
        if p == "{":
            stmts, tail = self.parse_braced()
            return ("block", stmts, tail)
        if p == "if":
            return self.parse_if()
        if p == "|" or p == "||":
            # closure
            params = []
            if p == "||":
                self.eat()
            else:
                self.eat()
                while self.peek() != "|":
                    q = self.eat()
                    if q in ("&", "mut", ","):
                        continue
                    if q == ":":
                        self.parse_type(); continue
                    params.append(q)
                self.eat("|")
            body = self.parse_expr()
            return ("closure", params, body)
        if p in ("true", "false"):
            self.eat()
            return ("bool", p == "true")
        if p == "..":
            self.eat()
            hi = None
            if self.peek() not in (None, ")", "]", "}", ",", ";", "{"):
                hi = self.parse_expr(nostruct, 1)
            return ("range", None, hi, False)
        if p == "match":
            raise Unsupported("match expression")
        if p == "unsafe":
            # kept as an opaque token list: the translator maps one exact idiom (rs2lean.FnTr.unsafe_fill) and rejects the rest
            self.eat()
            if self.peek() != "{":
                raise Unsupported("unsafe item")
            c = match_close(self.t, self.i)
            toks = self.t[self.i + 1:c]
            self.i = c + 1
            return ("unsafe", toks)
        if k == "str" or k == "char":
            self.eat()
            return ("str", p)
        if k == "id":
            segs = [self.eat()]
            while self.peek() == "::":
                self.eat()
                if self.peek() == "<":
                    depth = 0
                    while True:
                        q = self.eat()
                        if q == "<":
                            depth += 1
                        elif q == ">":
                            depth -= 1
                        if depth == 0:
                            break
                    continue
                segs.append(self.eat())
            if self.peek() == "!" and self.peek(1) in ("(", "[", "{"):
                self.eat()
                c = match_close(self.t, self.i)
                args = self.t[self.i + 1:c]
                self.i = c + 1
                name = segs[-1]
                if name in self.macros:
                    toks = expand(self.macros, name, args)
                    if toks and toks[0][1] == "{" and match_close(toks, 0) == len(toks) - 1:
                        toks = toks[1:-1]
                    sub = Parser(toks, self.macros)
                    stmts, tail = sub.parse_block_body()
                    if not stmts and tail is not None:
                        return ("paren", tail)
                    return ("block", stmts, tail)
                return ("macro", name, args)
            if self.peek() == "{" and not nostruct and segs[-1][:1].isupper():
                c = match_close(self.t, self.i)
                fields = []
                for part in split_top(self.t[self.i + 1:c]):
                    if part[0][1] == "..":
                        raise Unsupported("struct update syntax")
                    if len(part) == 1:
                        fields.append((part[0][1], ("path", [part[0][1]])))
                    else:
                        assert part[1][1] == ":"
                        fields.append((part[0][1], Parser(part[2:], self.macros).parse_expr_all()))
                self.i = c + 1
                return ("struct", segs[-1], fields)
            return ("path", segs)
        raise Unsupported(f"expression starting with `{p}`")

    def parse_expr_all(self):
        e = self.parse_expr()
        if not self.done():
            raise Unsupported(f"trailing tokens in expression: {self.peek()}")
        return e

def parse_body(toks, macros):
    return Parser(toks, macros).parse_block_body()

def load(path):
    return parse_items(lex(open(path).read()))
