#!/opt/veriftools/pyvenv/bin/python
"""srcdiff.py <repo> [--pinned <dir>] [--only unit.fn,…] — compare the *current* source of the translated functions with
the pinned source (the one the correspondence theorems of exttie.py were proved for) with the symbolic interpreter
symexec.py + z3.  Prints one JSON object:
  { "results": [ {unit, fn, status: same|equivalent|different|unknown|unsupported, detail, input} ] }
`different` carries a concrete input (state words / seed bytes / u64) on which the two versions disagree — the caller
replays it on the real crates and on the Lean model.  Falsification support only: nothing here is a proof obligation."""
import sys, os, json, time, random
sys.path.insert(0, os.path.dirname(os.path.abspath(__file__)))
import z3
import symexec as S
from symexec import Crate, Interp, Obj, I, lit, W
from rsfront import Unsupported

VERIF = os.path.dirname(os.path.dirname(os.path.abspath(__file__)))
PINNED = os.path.join(VERIF, "pinned_src")
XO_FILES = ["common.rs", "splitmix64.rs", "xoroshiro64star.rs", "xoroshiro64starstar.rs", "xoroshiro128plus.rs",
            "xoroshiro128plusplus.rs", "xoroshiro128starstar.rs", "xoshiro128plus.rs", "xoshiro128plusplus.rs",
            "xoshiro128starstar.rs", "xoshiro256plus.rs", "xoshiro256plusplus.rs", "xoshiro256starstar.rs",
            "xoshiro512plus.rs", "xoshiro512plusplus.rs", "xoshiro512starstar.rs"]
SEED_LENS = {"SplitMix64": 8, "Xoroshiro64Star": 8, "Xoroshiro64StarStar": 8, "Xoroshiro128Plus": 16,
             "Xoroshiro128PlusPlus": 16, "Xoroshiro128StarStar": 16, "Xoshiro128Plus": 16, "Xoshiro128PlusPlus": 16,
             "Xoshiro128StarStar": 16, "Xoshiro256Plus": 32, "Xoshiro256PlusPlus": 32, "Xoshiro256StarStar": 32,
             "Xoshiro512Plus": 64, "Xoshiro512PlusPlus": 64, "Xoshiro512StarStar": 64, "XorShiftRng": 16}
FILL_NS = [0, 1, 3, 4, 5, 7, 8, 9, 12, 13, 16, 17, 24]

def load(repo):
    xo = Crate(repo, "rand_xoshiro", XO_FILES)
    xs = Crate(repo, "rand_xorshift", ["lib.rs"])
    jt = Crate(repo, "rand_jitter", ["lib.rs"])
    for c in (xo, xs, jt):
        c.seed_lens = SEED_LENS
    return {"rand_xoshiro": xo, "rand_xorshift": xs, "rand_jitter": jt}

JITTER_FNS = [("JitterRng", "stir_pool"), ("JitterLfsr", "lfsr"), ("EcState", "stuck")]

def run_jitter(crate, unit, fn):
    it = Interp(crate, symbolic=True)
    if unit == "JitterRng":
        d = z3.BitVec("data", 64)
        obj = Obj("JitterRng", {"data": I(d, "u64"), "rounds": lit(64, "u8"), "mem_prev_index": lit(0, "u16"), "data_half_used": False})
        it.call_method(obj, "stir_pool", [])
        return flat(obj.f["data"]) + [it.panic], [("data", d)]
    if unit == "JitterLfsr":
        import extract_units
        outer = crate.units["JitterRng"]["methods"]["lfsr_time"]
        nf = extract_units.nested_fn(outer, "lfsr", crate.macros)
        d, t = z3.BitVec("data", 64), z3.BitVec("time", 64)
        env = [{"data": I(d, "u64"), "time": I(t, "u64")}]
        frame = dict(self=None, unit="JitterRng", ret="u64", checked=True)
        r = it.run_body(it.body(("nested", "lfsr"), nf, crate.macros), env, frame)
        return flat(r) + [it.panic], [("data", d), ("time", t)]
    if unit == "EcState":
        p, a, b, c = z3.BitVec("prev_time", 64), z3.BitVec("last_delta", 32), z3.BitVec("last_delta2", 32), z3.BitVec("current_delta", 32)
        obj = Obj("EcState", {"prev_time": I(p, "u64"), "last_delta": I(a, "i32"), "last_delta2": I(b, "i32")})
        r = it.call_method(obj, "stuck", [I(c, "i32")])
        return flat(r) + flat(obj) + [it.panic], [("prev_time", p), ("last_delta", a), ("last_delta2", b), ("current_delta", c)]
    raise Unsupported("jitter unit")

def sym_state(it, crate, unit, prefix="s"):
    """an object of `unit` whose integer fields are fresh symbolic variables; returns (obj, [(name, var)])"""
    fields, vars_ = {}, []
    for n, tt in crate.units[unit]["fields"]:
        ty = it.ty("".join(t[1] for t in tt))
        if ty in W:
            v = z3.BitVec(f"{prefix}_{n}", W[ty])
            fields[n] = I(v, ty); vars_.append((n, v))
        elif isinstance(ty, tuple) and ty[0] == "arr" and ty[1] in W:
            k = int(ty[2], 0)
            vs = [z3.BitVec(f"{prefix}_{n}_{i}", W[ty[1]]) for i in range(k)]
            fields[n] = [I(v, ty[1]) for v in vs]; vars_ += [(f"{n}[{i}]", v) for i, v in enumerate(vs)]
        else:
            raise Unsupported(f"field type {ty}")
    return Obj(unit, fields), vars_

def flat(v):
    """list of z3 terms of a result value"""
    if v is None:
        return []
    if isinstance(v, I):
        return [v.e]
    if isinstance(v, bool):
        return [z3.BoolVal(v)]
    if isinstance(v, int):
        return [z3.BitVecVal(v, 128)]
    if isinstance(v, Obj):
        out = []
        for k in sorted(v.f):
            out += flat(v.f[k])
        return out
    if isinstance(v, (list, tuple)):
        out = []
        for x in v:
            out += flat(x)
        return out
    if z3.is_expr(v):
        return [v]
    raise Unsupported(f"result of type {type(v)}")

def run_fn(crate, unit, fn, mode):
    """returns (outputs as z3 terms incl. the panic flag, input variables)"""
    outs, vars_, it = run_fn_(crate, unit, fn, mode)
    return outs + [it.panic], vars_

def run_fn_(crate, unit, fn, mode):
    it = Interp(crate, symbolic=True)
    it.wrapping_units = {u for u, d in crate.units.items() if any("Wrapping" in "".join(t[1] for t in tt) or "".join(t[1] for t in tt).startswith("w<") for _, tt in d["fields"])}
    if fn in ("next_u32", "next_u64", "jump", "long_jump") or fn.startswith("fill_bytes"):
        obj, vars_ = sym_state(it, crate, unit)
        if fn.startswith("fill_bytes"):
            n = int(fn.split(":")[1])
            buf = [lit(0xA5, "u8") for _ in range(n)]
            it.call_method(obj, "fill_bytes", [buf])
            return flat(buf) + flat(obj), vars_, it
        r = it.call_method(obj, fn, [])
        return flat(r) + flat(obj), vars_, it
    if fn == "from_seed":
        n = SEED_LENS[unit]
        bs = [z3.BitVec(f"seed_{i}", 8) for i in range(n)]
        seed = [I(b, "u8") for b in bs]
        arg = seed
        # Seed512 wrapper: a struct with field 0
        fdecl = crate.units[unit]["methods"]["from_seed"]
        pty = "".join(t[1] for t in [p for p in fdecl.params if p[0] != "self"][0][1])
        if "Seed512" in pty:
            arg = Obj("Seed512", {"0": seed})
        r = it.call_assoc(unit, "from_seed", [arg])
        return flat(r), [(f"seed[{i}]", b) for i, b in enumerate(bs)], it
    if fn == "seed_from_u64":
        x = z3.BitVec("x", 64)
        r = it.call_assoc(unit, "seed_from_u64", [I(x, "u64")])
        return flat(r), [("x", x)], it
    raise Unsupported(f"no driver for {fn}")

def compare(cur, pin, unit, fn, timeout_ms, runner=None):
    run_fn = runner or globals()["run_fn"]
    try:
        o1, v1 = run_fn(cur, unit, fn, "sym")
    except Unsupported as e:
        return dict(status="unsupported", detail=f"current source: {e}")
    except (KeyError, IndexError, AttributeError, TypeError, AssertionError, z3.Z3Exception) as e:
        return dict(status="unsupported", detail=f"current source: interpreter error {e!r}")
    try:
        o2, v2 = run_fn(pin, unit, fn, "sym")
    except Exception as e:
        return dict(status="unsupported", detail=f"pinned source: {e!r}")
    if len(o1) != len(o2):
        return dict(status="unknown", detail="results have different shapes")
    diffs = []
    for a, b in zip(o1, o2):
        if a.sort() != b.sort():
            return dict(status="unknown", detail="results have different types")
        if not z3.simplify(a).eq(z3.simplify(b)):
            diffs.append(a != b)
    if not diffs:
        return dict(status="same", detail="identical terms after simplification")
    s = z3.SolverFor("QF_BV")
    s.set("timeout", timeout_ms)
    s.add(z3.Or(*diffs))
    r = s.check()
    if r == z3.unsat:
        return dict(status="equivalent", detail="z3: no input distinguishes the current from the pinned source")
    if r == z3.sat:
        m = s.model()
        inp = {n: (m.eval(v, model_completion=True).as_long(), v.size()) for n, v in v1}
        return dict(status="different", detail="z3 model", input=inp)
    return dict(status="unknown", detail="z3: " + s.reason_unknown())

def image_of(inp, unit, fn):
    """harness script line(s) that reproduce the input on the real crates / the Lean model"""
    if fn == "from_seed":
        n = SEED_LENS[unit]
        b = bytes(inp[f"seed[{i}]"][0] for i in range(n))
        return dict(kind="seed", hex=b.hex())
    if fn == "seed_from_u64":
        return dict(kind="u64", hex=f"{inp['x'][0]:016x}")
    # state image = little-endian words in field order (bincode layout of the derive)
    out = b""
    for n, (v, w) in inp.items():
        out += v.to_bytes(w // 8, "little")
    return dict(kind="state", hex=out.hex())

def main():
    repo = sys.argv[1]
    pinned = PINNED
    only = None
    timeout_ms = 20000
    budget_s = 600
    a = sys.argv[2:]
    while a:
        if a[0] == "--pinned":
            pinned = a[1]; a = a[2:]
        elif a[0] == "--only":
            only = set(a[1].split(",")); a = a[2:]
        elif a[0] == "--timeout":
            timeout_ms = int(a[1]); a = a[2:]
        elif a[0] == "--budget":
            budget_s = int(a[1]); a = a[2:]
        else:
            a = a[1:]
    t0 = time.time()
    try:
        cur, pin = load(repo), load(pinned)
    except Exception as e:
        # a source file of the current tree is outside the parser's subset: nothing can be compared
        json.dump(dict(results=[], error=f"cannot read the sources: {e!r}"[:300], seconds=0), sys.stdout)
        return
    results = []
    for cname in ("rand_xoshiro", "rand_xorshift"):
        for unit in SEED_LENS:
            if unit not in pin[cname].units or not pin[cname].units[unit]["methods"]:
                continue
            fns = ["next_u32", "next_u64", "from_seed", "seed_from_u64", "jump", "long_jump"] + [f"fill_bytes:{n}" for n in FILL_NS]
            found = False
            for fn in fns:
                base = fn.split(":")[0]
                if found or time.time() - t0 > budget_s:
                    continue
                if base not in pin[cname].units[unit]["methods"]:
                    continue
                if only and f"{unit}.{base}" not in only and unit not in only:
                    continue
                if unit not in cur[cname].units or base not in cur[cname].units[unit]["methods"]:
                    results.append(dict(unit=unit, fn=fn, status="unsupported", detail="function no longer exists"))
                    continue
                r = compare(cur[cname], pin[cname], unit, fn, timeout_ms)
                r.update(unit=unit, fn=fn)
                if r["status"] == "different":
                    found = True
                    r["replay"] = image_of(r["input"], unit, base)
                    r["input"] = {k: f"{v[0]:#x}" for k, v in r["input"].items()}
                results.append(r)
    for unit, fn in JITTER_FNS:
        if only and f"{unit}.{fn}" not in only and unit not in only:
            continue
        r = compare(cur["rand_jitter"], pin["rand_jitter"], unit, fn, timeout_ms, runner=lambda c, u, f, m: run_jitter(c, u, f))
        r.update(unit=unit, fn=fn)
        if r["status"] == "different":
            inp = r["input"]
            if unit == "JitterRng":
                r["replay"] = dict(kind="stir", hex=f"{inp['data'][0]:016x}")
            elif unit == "JitterLfsr":
                r["replay"] = dict(kind="lfsr", hex=f"{inp['data'][0]:016x}", time=f"{inp['time'][0]:x}")
            r["input"] = {k: f"{v[0]:#x}" for k, v in inp.items()}
        results.append(r)
    json.dump(dict(results=results, seconds=round(time.time() - t0, 1)), sys.stdout)

if __name__ == "__main__":
    main()
