#!/opt/veriftools/pyvenv/bin/python
"""srcdiff.py <repo> [--pinned <dir>] [--only unit.fn,…] — compare the *current* source of the translated functions with
the pinned source (the one the correspondence theorems of exttie.py were proved for) with the symbolic interpreter
symexec.py + z3.  Prints one JSON object:
  { "results": [ {unit, fn, status: same|equivalent|different|unknown|unsupported, detail, input} ] }
`different` carries a concrete input (state words / seed bytes / u64) on which the two versions disagree — the caller
replays it on the real crates and on the Lean model.  Falsification support only: nothing here is a proof obligation."""
import sys, os, json, time, random, re
sys.path.insert(0, os.path.dirname(os.path.abspath(__file__)))
import z3
import symexec as S
from symexec import Crate, Interp, Obj, I, lit, W
from rsfront import Unsupported

VERIF = os.path.dirname(os.path.dirname(os.path.abspath(__file__)))
PINNED = os.path.join(VERIF, "pinned_src")
XO_FILES = ["common.rs", "splitmix64.rs", "xoroshiro64star.rs", "xoroshiro64starstar.rs", "xoroshiro128plus.rs",
            "xoroshiro128plusplus.rs", "xoroshiro128starstar.rs", "xoshiro128plus.rs", "xoshiro128plusplus.rs",
            "xoshiro128starstar.rs", "xoshiro256plus.rs", "xoshiro256plusplus.rs", "xoshiro256starstar.rs",
            "xoshiro512plus.rs", "xoshiro512plusplus.rs", "xoshiro512starstar.rs"]
SEED_LENS = {"SplitMix64": 8, "Xoroshiro64Star": 8, "Xoroshiro64StarStar": 8, "Xoroshiro128Plus": 16,
             "Xoroshiro128PlusPlus": 16, "Xoroshiro128StarStar": 16, "Xoshiro128Plus": 16, "Xoshiro128PlusPlus": 16,
             "Xoshiro128StarStar": 16, "Xoshiro256Plus": 32, "Xoshiro256PlusPlus": 32, "Xoshiro256StarStar": 32,
             "Xoshiro512Plus": 64, "Xoshiro512PlusPlus": 64, "Xoshiro512StarStar": 64, "XorShiftRng": 16}
FILL_NS = [0, 1, 3, 4, 5, 7, 8, 9, 12, 13, 16, 17, 24]
SIMP_DEFAULT = S.SIMP_LIMIT

def load(repo):
    xo = Crate(repo, "rand_xoshiro", XO_FILES)
    xs = Crate(repo, "rand_xorshift", ["lib.rs"])
    jt = Crate(repo, "rand_jitter", ["lib.rs"])
    for c in (xo, xs, jt):
        c.seed_lens = SEED_LENS
    return {"rand_xoshiro": xo, "rand_xorshift": xs, "rand_jitter": jt}

JITTER_FNS = [("JitterRng", "stir_pool"), ("JitterLfsr", "lfsr"), ("EcState", "stuck")]

def run_jitter(crate, unit, fn):
    S.SIMP_LIMIT = S.BIG
    it = Interp(crate, symbolic=True)
    if unit == "JitterRng":
        d = z3.BitVec("data", 64)
        obj = Obj("JitterRng", {"data": I(d, "u64"), "rounds": lit(64, "u8"), "mem_prev_index": lit(0, "u16"), "data_half_used": False})
        it.call_method(obj, "stir_pool", [])
        return flat(obj.f["data"]) + [it.panic], [("data", d)]
    if unit == "JitterLfsr":
        import extract_units
        outer = crate.units["JitterRng"]["methods"]["lfsr_time"]
        nf = extract_units.nested_fn(outer, "lfsr", crate.macros)
        d, t = z3.BitVec("data", 64), z3.BitVec("time", 64)
        env = [{"data": I(d, "u64"), "time": I(t, "u64")}]
        frame = dict(self=None, unit="JitterRng", ret="u64", checked=True)
        r = it.run_body(it.body(("nested", "lfsr"), nf, crate.macros), env, frame)
        return flat(r) + [it.panic], [("data", d), ("time", t)]
    if unit == "EcState":
        p, a, b, c = z3.BitVec("prev_time", 64), z3.BitVec("last_delta", 32), z3.BitVec("last_delta2", 32), z3.BitVec("current_delta", 32)
        obj = Obj("EcState", {"prev_time": I(p, "u64"), "last_delta": I(a, "i32"), "last_delta2": I(b, "i32")})
        r = it.call_method(obj, "stuck", [I(c, "i32")])
        return flat(r) + flat(obj) + [it.panic], [("prev_time", p), ("last_delta", a), ("last_delta2", b), ("current_delta", c)]
    raise Unsupported("jitter unit")

def sym_state(it, crate, unit, prefix="s"):
    """an object of `unit` whose integer fields are fresh symbolic variables; returns (obj, [(name, var)])"""
    fields, vars_ = {}, []
    for n, tt in crate.units[unit]["fields"]:
        ty = it.ty("".join(t[1] for t in tt))
        if ty in W:
            v = z3.BitVec(f"{prefix}_{n}", W[ty])
            fields[n] = I(v, ty); vars_.append((n, v))
        elif isinstance(ty, tuple) and ty[0] == "arr" and ty[1] in W:
            k = int(ty[2], 0)
            vs = [z3.BitVec(f"{prefix}_{n}_{i}", W[ty[1]]) for i in range(k)]
            fields[n] = [I(v, ty[1]) for v in vs]; vars_ += [(f"{n}[{i}]", v) for i, v in enumerate(vs)]
        else:
            raise Unsupported(f"field type {ty}")
    return Obj(unit, fields), vars_

def flat(v):
    """list of z3 terms of a result value"""
    if v is None:
        return []
    if isinstance(v, I):
        return [v.e]
    if isinstance(v, bool):
        return [z3.BoolVal(v)]
    if isinstance(v, int):
        return [z3.BitVecVal(v, 128)]
    if isinstance(v, Obj):
        out = []
        for k in sorted(v.f):
            out += flat(v.f[k])
        return out
    if isinstance(v, (list, tuple)):
        out = []
        for x in v:
            out += flat(x)
        return out
    if z3.is_expr(v):
        return [v]
    raise Unsupported(f"result of type {type(v)}")

def run_fn(crate, unit, fn, mode):
    """returns (outputs as z3 terms incl. the panic flag, input variables)"""
    outs, vars_, it = run_fn_(crate, unit, fn, mode)
    return outs + [it.panic], vars_

def run_fn_(crate, unit, fn, mode):
    S.SIMP_LIMIT = S.BIG            # small straight-line functions: simplify operation by operation (linear generators cancel)
    it = Interp(crate, symbolic=True)
    it.wrapping_units = {u for u, d in crate.units.items() if any("Wrapping" in "".join(t[1] for t in tt) or "".join(t[1] for t in tt).startswith("w<") for _, tt in d["fields"])}
    if fn in ("next_u32", "next_u64", "jump", "long_jump") or fn.startswith("fill_bytes"):
        obj, vars_ = sym_state(it, crate, unit)
        if fn.startswith("fill_bytes"):
            n = int(fn.split(":")[1])
            buf = [lit(0xA5, "u8") for _ in range(n)]
            it.call_method(obj, "fill_bytes", [buf])
            return flat(buf) + flat(obj), vars_, it
        r = it.call_method(obj, fn, [])
        return flat(r) + flat(obj), vars_, it
    if fn == "from_seed":
        n = SEED_LENS[unit]
        bs = [z3.BitVec(f"seed_{i}", 8) for i in range(n)]
        seed = [I(b, "u8") for b in bs]
        arg = seed
        # Seed512 wrapper: a struct with field 0
        fdecl = crate.units[unit]["methods"]["from_seed"]
        pty = "".join(t[1] for t in [p for p in fdecl.params if p[0] != "self"][0][1])
        if "Seed512" in pty:
            arg = Obj("Seed512", {"0": seed})
        r = it.call_assoc(unit, "from_seed", [arg])
        return flat(r), [(f"seed[{i}]", b) for i, b in enumerate(bs)], it
    if fn == "seed_from_u64":
        x = z3.BitVec("x", 64)
        r = it.call_assoc(unit, "seed_from_u64", [I(x, "u64")])
        return flat(r), [("x", x)], it
    raise Unsupported(f"no driver for {fn}")

def compare(cur, pin, unit, fn, timeout_ms, runner=None):
    run_fn = runner or globals()["run_fn"]
    try:
        o1, v1 = run_fn(cur, unit, fn, "sym")
    except Unsupported as e:
        return dict(status="unsupported", detail=f"current source: {e}")
    except (KeyError, IndexError, AttributeError, TypeError, AssertionError, z3.Z3Exception) as e:
        return dict(status="unsupported", detail=f"current source: interpreter error {e!r}")
    try:
        o2, v2 = run_fn(pin, unit, fn, "sym")
    except Exception as e:
        return dict(status="unsupported", detail=f"pinned source: {e!r}")
    if len(o1) != len(o2):
        return dict(status="unknown", detail="results have different shapes")
    diffs = []
    for a, b in zip(o1, o2):
        if a.sort() != b.sort():
            return dict(status="unknown", detail="results have different types")
        if not z3.simplify(a).eq(z3.simplify(b)):
            diffs.append(a != b)
    if not diffs:
        return dict(status="same", detail="identical terms after simplification")
    s = z3.SolverFor("QF_BV")
    s.set("timeout", timeout_ms)
    s.add(z3.Or(*diffs))
    r = s.check()
    if r == z3.unsat:
        return dict(status="equivalent", detail="z3: no input distinguishes the current from the pinned source")
    if r == z3.sat:
        m = s.model()
        inp = {n: (m.eval(v, model_completion=True).as_long(), v.size()) for n, v in v1}
        return dict(status="different", detail="z3 model", input=inp)
    return dict(status="unknown", detail="z3: " + s.reason_unknown())

# ====================================================================== rand_hc / rand_isaac
# Units whose state holds big arrays indexed by data.  Every function gets fully symbolic inputs built from its declared
# parameter types (arrays of more than 32 elements are z3 arrays); functions are compared leaves first, a caller first
# directly and — if that is too slow or undecided — modulo the callees already shown equivalent (symexec: compositional mode).
BLOCK_UNITS = {
    "Hc128Core": dict(crate="rand_hc", files=["hc128.rs"], gen="Hc128Rng", seed=32, serde=False,
                      fns=[("Hc128Fns", "f1"), ("Hc128Fns", "f2"), ("Hc128Core", "step_p"), ("Hc128Core", "step_q"),
                           ("Hc128Core", "generate"), ("Hc128Core", "sixteen_steps"), ("Hc128Core", "init"), ("Hc128Core", "from_seed")]),
    "IsaacCore": dict(crate="rand_isaac", files=["isaac.rs", "isaac_array.rs"], gen="IsaacRng", seed=32, serde=True, word=4,
                      fns=[("IsaacCore", f) for f in ("ind", "rngstep", "mix", "generate", "init:1", "init:2", "from_seed", "seed_from_u64",
                                                      "from_rng", "try_from_rng")]),
    "Isaac64Core": dict(crate="rand_isaac", files=["isaac64.rs", "isaac_array.rs"], gen="Isaac64Rng", seed=32, serde=True, word=8,
                        fns=[("Isaac64Core", f) for f in ("ind", "rngstep", "mix", "generate", "init:1", "init:2", "from_seed", "seed_from_u64",
                                                          "from_rng", "try_from_rng")]),
}
UNIT_OF_REPORT = {"Hc128Fns": "Hc128Core"}
UNIT_BUDGET_S = 170

def load_block(repo):
    out = {}
    for u, spec in BLOCK_UNITS.items():
        try:
            c = Crate(repo, spec["crate"], spec["files"])
            c.seed_lens = {u: spec["seed"]}
            out[u] = c
        except Exception as e:
            out[u] = e
    return out

def find_fn(it, crate, unit, name):
    """(kind, Fn, outer Fn or None): a method / associated function of the unit, a nested fn of one of its methods, a free fn"""
    u = crate.units.get(unit)
    if u is None:
        return None
    if name in u["methods"]:
        return ("m", u["methods"][name], None)
    for mname, m in u["methods"].items():
        try:
            stmts, tail = it.body((unit, mname), m, crate.macros)
        except Unsupported:
            continue
        for s in stmts:
            if s[0] == "fn" and s[1].name == name:
                return ("n", s[1], m)
    if name in crate.fns:
        return ("f", crate.fns[name], None)
    return None

class Inputs:
    """fresh symbolic inputs; `vars` lists what a model must assign: (name, bit-vector) or (name, array, length)"""
    def __init__(self):
        self.vars = []
    def bv(self, name, ty):
        v = z3.BitVec(name, W[ty])
        self.vars.append((name, v))
        return I(v, ty, 1)
    def arr(self, name, n, ety):
        if n <= S.SMALL:
            return [self.bv(f"{name}[{i}]", ety) for i in range(n)]
        a = z3.Array(name, z3.BitVecSort(64), z3.BitVecSort(W[ety]))
        self.vars.append((name, a, n))
        return S.BigArr(n, ety, None, a)

class RandInputs:
    """concrete pseudo-random inputs, a function of (trial, input name) only: the two versions get the same values.  `usize`
    values are drawn from a trial-dependent range (indices and counters are only meaningful when small / aligned)."""
    def __init__(self, trial):
        self.trial, self.vars, self.values = trial, [], {}
    def rnd(self, name, bits):
        import hashlib
        h = hashlib.sha256(f"{self.trial}:{name}".encode()).digest()
        return int.from_bytes(h, "little") & ((1 << bits) - 1)
    def bv(self, name, ty):
        x = self.rnd(name, W[ty])
        if S.base_ty(ty) == "usize":
            x = [x, (x % 64) * 16, x % 512, (x % 31) * 16, x % 16][self.trial % 5]
        elif self.trial % 5 == 4:
            x = [0, 1, (1 << W[ty]) - 1, x][self.rnd(name + "/k", 2)]
        self.values[name] = (x, W[ty])
        return I(x, ty)
    def arr(self, name, n, ety):
        xs = [self.bv(f"{name}[{i}]", ety) for i in range(n)]
        if n <= S.SMALL:
            return xs
        b = S.BigArr(n, ety)
        for i, x in enumerate(xs):
            b.set(i, x)
        return b
    def src(self):
        self.values["src"] = "pseudo-random bytes"
        return S.Src(data=lambda i: self.rnd(f"src[{i}]", 8))

def const_len(it, crate, unit, txt):
    e = S.rsfront.Parser(S.rsfront.lex(txt), crate.macros).parse_expr_all()
    return it.pyint(it.ev(e, [{}], dict(self=None, unit=unit, ret=None)), "array length")

def resolve_type(it, crate, unit, tys):
    """declared type with `Self::X` / `<… as Trait>::X` associated types replaced"""
    t = tys.strip()
    for _ in range(6):
        m = re.search(r"Self::(\w+)", t)
        if not m or (unit, m.group(1)) not in crate.assoc:
            break
        t = t.replace(m.group(0), crate.assoc[(unit, m.group(1))])
    return t

def sym_value(it, crate, unit, tys, name, inp, fixed, gens=()):
    """symbolic value of a parameter / field of declared type `tys`"""
    tys = resolve_type(it, crate, unit, tys)
    isref = tys.startswith("&")
    mut = bool(re.match(r"^&\s*('\w+\s*)?mut\b", tys))
    bare = re.sub(r"^&\s*('\w+\s*)?(mut\b)?\s*", "", tys).strip()
    if bare.startswith("impl ") or bare in gens:
        return inp.src() if hasattr(inp, "src") else S.Src()
    t = it.ty(tys)
    if name in fixed:
        return I(fixed[name], t) if t in W else fixed[name]
    if t in W:
        v = inp.bv(name, t)
        if isref and mut:
            return S.Ref({"v": v}, "v")
        return v
    if t == ("named", "bool"):
        if isinstance(inp, RandInputs):
            return bool(inp.rnd(name, 1))
        b = z3.Bool(name)
        inp.vars.append((name, b))
        return b
    if isinstance(t, tuple) and t[0] == "arr" and t[1] in W:
        a = inp.arr(name, const_len(it, crate, unit, t[2]), t[1])
        return S.View(a, 0, it.a_len(a)) if isref else a
    if isinstance(t, tuple) and t[0] == "named":
        m = re.match(r"^IsaacArray<(.+)>$", t[1])
        if m and it.ty(m.group(1)) in W:
            a = inp.arr(name, const_len(it, crate, unit, "RAND_SIZE"), it.ty(m.group(1)))
            return S.View(a, 0, it.a_len(a)) if isref else a
        sname = unit if t[1] == "Self" else t[1]
        if sname in crate.units and crate.units[sname]["fields"]:
            f = {}
            for fname, tt in crate.units[sname]["fields"]:
                f[fname] = sym_value(it, crate, sname, S.tystr(tt), f"{name}.{fname}" if name != "self" else fname, inp, {}, gens)
            return Obj(sname, f)
    raise Unsupported(f"no symbolic value for a parameter of type {tys}")

def out_terms(it, v, outs, arrs):
    """flatten a result value into scalar terms and (array term, length) pairs"""
    v = it.val(v)
    if v is None:
        return
    if isinstance(v, tuple) and v and v[0] == "result":
        return out_terms(it, v[1], outs, arrs)
    if isinstance(v, I):
        outs.append(v.e); return
    if isinstance(v, bool):
        outs.append(z3.BoolVal(v)); return
    if isinstance(v, int):
        outs.append(z3.BitVecVal(v, 128)); return
    if isinstance(v, Obj):
        for k in sorted(v.f):
            out_terms(it, v.f[k], outs, arrs)
        return
    if isinstance(v, S.View) and isinstance(v.base, S.BigArr) and v.off == 0 and v.n == v.base.n:
        v = v.base
    if isinstance(v, S.BigArr):
        if len(v.cache) == v.n or v.bg is None:
            for i in range(v.n):
                out_terms(it, v.get(i), outs, arrs)
        else:
            arrs.append((v.term(), v.n))
        return
    if isinstance(v, (list, S.View)):
        for x in it.elems(v):
            out_terms(it, x, outs, arrs)
        return
    if z3.is_expr(v):
        outs.append(v); return
    raise Unsupported(f"result of type {type(v)}")

def drive(crate, unit, fn, abstract=None, deadline=None, inputs=None):
    """run unit::fn on fully symbolic inputs (or on the concrete `inputs`); returns dict(outs, arrs, panic, abort, vars, sig, kind, it)"""
    it = Interp(crate, symbolic=inputs is None, deadline=deadline)
    it.abstract = dict(abstract or {})
    base, _, variant = fn.partition(":")
    found = find_fn(it, crate, unit, base)
    if found is None:
        raise KeyError("function no longer exists")
    kind, f, outer = found
    fixed = {}
    if base == "init" and variant:
        fixed["rounds"] = int(variant)
    inp = inputs if inputs is not None else Inputs()
    obj = None
    selfkind = next((p[1] for p in f.params if p[0] == "self"), None)
    if selfkind is not None:
        obj = sym_value(it, crate, unit, unit, "self", inp, {})
    params = [p for p in f.params if p[0] != "self"]
    gens = {t[1] for t in (f.generics or []) if t[0] == "id"}
    # inputs are named by position (a renamed parameter is the same input), `self` by field
    if "rounds" in fixed:
        fixed = {f"arg{k}": fixed["rounds"] for k, p in enumerate(params) if S.tystr(p[1]).strip() == "u32"}
    args = [sym_value(it, crate, unit, S.tystr(p[1]), f"arg{k}", inp, fixed, gens) for k, p in enumerate(params)]
    # signature of the inputs (what an abstracted call of this function must match)
    terms, sig = [], []
    if obj is not None:
        it.flat_in(obj, terms, sig)
    bound = [it.bind(a, S.tystr(p[1])) for p, a in zip(params, args)]
    sigok = all(it.flat_in(a, terms, sig) for a in bound)
    key = (kind, unit, base)
    it.abstract.pop(key, None)
    if kind == "n":
        env = [{}]
        frame = dict(self=None, unit=unit, ret=None, checked=True)
        for s in it.body((unit, outer.name), outer, crate.macros)[0]:
            if s[0] in ("const", "fn"):
                it.stmt(s, env, frame)
        r = it.call_nested(f, args, env, frame)
    elif kind == "f":
        r = it.call_free(base, args, unit)
    elif obj is not None:
        r = it.call_method(obj, base, args)
    else:
        r = it.call_assoc(unit, base, args)
    outs, arrs = [], []
    out_terms(it, r, outs, arrs)
    for a in args:
        if isinstance(a, S.Src):
            inp.vars.append(("src", a.arr, a.pos))
    if selfkind == "mut":
        out_terms(it, obj, outs, arrs)
    for p, a in zip(params, args):
        pt = S.tystr(p[1]).strip()
        if re.match(r"^&\s*('\w+\s*)?mut\b", pt):
            if isinstance(a, S.Src):
                outs += [z3.BitVecVal(x, 64) for x in a.requests] + [z3.BitVecVal(len(a.requests), 64)]
            else:
                out_terms(it, a, outs, arrs)
    return dict(outs=outs, arrs=arrs, panic=it.panic, abort=it.abort, vars=inp.vars, sig=sig if sigok else None, kind=kind, it=it)

def forked(fn, seconds, mem_gb=6):
    """run fn() in a child process with a memory limit and a hard wall-clock limit; its JSON-able result, or None.
    (z3 honours neither its own timeout nor an interrupt reliably on big array / bit-vector terms, and an interrupted context
    stops simplifying afterwards — so nothing long runs in this process.)"""
    import resource, select, signal
    rfd, wfd = os.pipe()
    pid = os.fork()
    if pid == 0:
        out = None
        try:
            os.close(rfd)
            lim = mem_gb << 30
            resource.setrlimit(resource.RLIMIT_AS, (lim, lim))
            out = fn()
        except BaseException as e:
            out = dict(error=f"{e!r}"[:200])
        try:
            os.write(wfd, json.dumps(out).encode())
        finally:
            os._exit(0)
    os.close(wfd)
    buf, end = b"", time.time() + seconds
    while True:
        left = end - time.time()
        if left <= 0:
            break
        rl, _, _ = select.select([rfd], [], [], left)
        if not rl:
            break
        chunk = os.read(rfd, 1 << 16)
        if not chunk:
            break
        buf += chunk
    os.close(rfd)
    try:
        os.kill(pid, signal.SIGKILL)
    except ProcessLookupError:
        pass
    os.waitpid(pid, 0)
    try:
        return json.loads(buf.decode())
    except Exception:
        return None

def identical_after_simplify(pairs, seconds):
    """indices of the pairs whose two terms z3.simplify makes identical (one call over all terms: they share most of their
    structure); None if that takes longer than `seconds`"""
    if not pairs:
        return []
    def work():
        terms = [q[1] for q in pairs] + [q[2] for q in pairs]
        f = z3.Function("pack!", *([t.sort() for t in terms] + [z3.BoolSort()]))
        st = z3.simplify(f(*terms)).children()
        k = len(pairs)
        return [i for i in range(k) if st[i].eq(st[k + i])]
    r = forked(work, seconds)
    return r if isinstance(r, list) else None

def model_inputs(m, vars_):
    inp = {}
    for v in vars_:
        if len(v) == 2:
            x = m.eval(v[1], model_completion=True)
            inp[v[0]] = (int(z3.is_true(x)), 1) if z3.is_bool(v[1]) else (x.as_long(), v[1].size())
        else:
            name, a, n = v
            w = a.range().size()
            for i in range(n):
                inp[f"{name}[{i}]"] = (m.eval(z3.Select(a, z3.BitVecVal(i, 64)), model_completion=True).as_long(), w)
    return inp

def random_trials(cur, pin, unit, fn, trials=5, wall=20):
    """run both versions concretely on pseudo-random inputs; a dict(input=…, what=…) for the first disagreement, else None"""
    t0 = time.time()
    for k in range(trials):
        if time.time() - t0 > wall:
            break
        hit = concrete_pair(cur, pin, unit, fn, lambda: RandInputs(k), wall)
        if hit:
            return hit
    return None

class FixedInputs(RandInputs):
    """concrete inputs: the given values, pseudo-random ones for everything else"""
    def __init__(self, trial, given):
        RandInputs.__init__(self, trial)
        self.given = given
    def bv(self, name, ty):
        if name in self.given:
            x = self.given[name] & ((1 << W[ty]) - 1)
            self.values[name] = (x, W[ty])
            return I(x, ty)
        return RandInputs.bv(self, name, ty)

def concrete_pair(cur, pin, unit, fn, make_inputs, wall):
    """both versions on the same concrete inputs: None (agree / cannot run) or dict(input, what)"""
    outs = []
    try:
        for c in (cur, pin):
            ri = make_inputs()
            d = drive(c, unit, fn, inputs=ri, deadline=time.time() + wall)
            vals = tuple(str(z3.simplify(x)) for x in d["outs"])
            outs.append((S.conc_bool(z3.simplify(d["abort"])), S.conc_bool(z3.simplify(d["panic"])), vals, ri.values))
    except (Unsupported, KeyError, IndexError, AttributeError, TypeError, AssertionError, ValueError, z3.Z3Exception, RecursionError):
        return None
    a, b = outs
    if a[0] is None or b[0] is None or set(a[3]) != set(b[3]):
        return None
    if a[0] != b[0] or a[1] != b[1]:
        return dict(input=a[3], what=f"the panic behaviour differs (abort, debug panic): current {a[:2]}, pinned {b[:2]}")
    if not a[0] and a[2] != b[2]:
        n = next((i for i, (x, y) in enumerate(zip(a[2], b[2])) if x != y), len(min(a[2], b[2], key=len)))
        return dict(input=a[3], what=f"result component {n} differs")
    return None

def cond_atoms(term, byname, limit=4000):
    """input atoms (scalar variables, array cells at constant indices) occurring in a term: {name: z3 term}; None if the term is big"""
    seen, stack, atoms = set(), [term], {}
    while stack:
        x = stack.pop()
        i = x.get_id()
        if i in seen:
            continue
        seen.add(i)
        if len(seen) > limit:
            return None
        if z3.is_const(x) and x.decl().kind() == z3.Z3_OP_UNINTERPRETED:
            n = x.decl().name()
            if n in byname and len(byname[n]) == 2:
                atoms[n] = x
            continue
        if z3.is_select(x) and z3.is_const(x.arg(0)) and z3.is_bv_value(x.arg(1)):
            n = x.arg(0).decl().name()
            if n in byname and len(byname[n]) == 3 and x.arg(1).as_long() < byname[n][2]:
                atoms[f"{n}[{x.arg(1).as_long()}]"] = x
                continue
        stack.extend(x.children())
    return atoms

def directed_trials(cur, pin, unit, fn, runs, budget_s=20):
    """branch-directed concrete tests: for every symbolic branch condition met while executing either version (and its
    negation), z3 solves the condition for a few of the inputs it mentions with all others fixed at pseudo-random values —
    an input that takes the rare side of `sum == 0`, `a == b`, an overflow … without being degenerate — and both versions are
    run concretely on it"""
    t0 = time.time()
    byname = {v[0]: v for v in runs[0]["vars"]}
    conds, seen = [], set()
    for r in runs:
        for pc, c in r["it"].branches:
            f = z3.And(*(pc + [c])) if pc else c
            g = z3.And(*(pc + [z3.Not(c)])) if pc else z3.Not(c)
            for h in (f, g):
                if h.get_id() not in seen:
                    seen.add(h.get_id()); conds.append(h)
    rng = random.Random(77)
    tried = 0
    for ci, f in enumerate(conds[:80]):
        if time.time() - t0 > budget_s:
            break
        atoms = cond_atoms(f, byname)
        if not atoms:
            continue
        names = sorted(atoms)
        for k in sorted({1, 2, 4, max(1, len(names) // 4), max(1, len(names) // 2), len(names)}):
            if k > len(names) or time.time() - t0 > budget_s:
                break
            free = set(rng.sample(names, k))
            base = RandInputs(1000 + ci)
            s = z3.Solver()
            s.set("timeout", 700)
            s.add(f)
            for n in names:
                if n not in free:
                    s.add(atoms[n] == z3.BitVecVal(base.rnd(n, atoms[n].size()), atoms[n].size()))
            if s.check() != z3.sat:
                continue
            m = s.model()
            given = {n: m.eval(atoms[n], model_completion=True).as_long() for n in names}
            tried += 1
            hit = concrete_pair(cur, pin, unit, fn, lambda: FixedInputs(1000 + ci, given), budget_s)
            if hit:
                hit["what"] += f" (input solved for a branch condition of the code, {k} of its {len(names)} inputs free, the others pseudo-random)"
                return hit
            break
    return None

def solve_forked(formula, flags, vars_, timeout_ms, mem_gb=6):
    """z3 in a child process; returns dict(r='sat'|'unsat'|'unknown', input=…, flagdiff=…, why=…)"""
    def work():
        s = z3.Solver()
        s.set("timeout", timeout_ms)
        s.add(formula)
        r = s.check()
        out = dict(r=str(r))
        if r == z3.sat:
            m = s.model()
            out["input"] = model_inputs(m, vars_)
            out["flagdiff"] = bool(flags) and z3.is_true(m.eval(z3.Or(*flags), model_completion=True))
        elif r != z3.unsat:
            out["why"] = s.reason_unknown()
        return out
    r = forked(work, timeout_ms / 1000 + 6, mem_gb)
    if not isinstance(r, dict) or "r" not in r:
        return dict(r="unknown", why="timeout (solver stopped after the wall-clock limit or ran out of memory)" if not r else str(r.get("error")))
    return r

def compare_block(cur, pin, unit, fn, timeout_ms, abs_cur=None, abs_pin=None, wall=60):
    """compare unit::fn of the two crates.  Returns (result dict, signature of the inputs or None, kinds)"""
    t0 = time.time()
    try:
        a = drive(cur, unit, fn, abs_cur, deadline=t0 + wall)
    except KeyError as e:
        return dict(status="unsupported", detail="function no longer exists"), None, None
    except Unsupported as e:
        return dict(status="unsupported", detail=f"current source: {e}"), None, None
    except (IndexError, AttributeError, TypeError, AssertionError, ValueError, z3.Z3Exception, RecursionError) as e:
        return dict(status="unsupported", detail=f"current source: interpreter error {e!r}"[:300]), None, None
    try:
        b = drive(pin, unit, fn, abs_pin, deadline=time.time() + wall)
    except Exception as e:
        return dict(status="unsupported", detail=f"pinned source: {e!r}"[:300]), None, None
    mode = "direct"
    used = sorted(a["it"].abstracted | b["it"].abstracted)
    if abs_cur or abs_pin:
        mode = ("modulo the callees " + ", ".join(used) + " (shown equivalent before; replaced by uninterpreted functions)") if used else "direct"
    kinds = (a["kind"], b["kind"])
    sig = a["sig"] if a["sig"] is not None and a["sig"] == b["sig"] else None
    if len(a["outs"]) != len(b["outs"]) or len(a["arrs"]) != len(b["arrs"]):
        return dict(status="unknown", detail="results have different shapes", mode=mode), None, kinds
    if [(v[0], str(v[1].sort())) + tuple(v[2:]) for v in a["vars"] if v[0] != "src"] != [(v[0], str(v[1].sort())) + tuple(v[2:]) for v in b["vars"] if v[0] != "src"]:
        return dict(status="unknown", detail="inputs have different shapes", mode=mode), None, kinds
    # the two runs used the same variable names: inputs are shared
    for (x, n), (y, n2) in zip(a["arrs"], b["arrs"]):
        if n != n2 or x.sort() != y.sort():
            return dict(status="unknown", detail="results have different types", mode=mode), None, kinds
    for x, y in zip(a["outs"], b["outs"]):
        if x.sort() != y.sort():
            return dict(status="unknown", detail="results have different types", mode=mode), None, kinds
    # 1. structurally identical terms (z3 terms are hash-consed; small subterms were simplified as they were built)
    pairs = [("flag", a["panic"], b["panic"], None), ("flag", a["abort"], b["abort"], None)]
    pairs += [("out", x, y, None) for x, y in zip(a["outs"], b["outs"])]
    pairs += [("arr", x, y, n) for (x, n), (y, _) in zip(a["arrs"], b["arrs"])]
    pairs = [q for q in pairs if not q[1].eq(q[2])]
    # 2. concrete falsifiers, 3. one bounded simplification of everything that is left (one call: the terms share most of their structure)
    if pairs and not used:
        # cheap falsifier first: both versions on a few pseudo-random concrete inputs
        hit = random_trials(cur, pin, unit, fn, wall=min(20, wall))
        if hit:
            return dict(status="different", detail=f"concrete run on pseudo-random inputs: {hit['what']}", mode=mode,
                        input={k: v for k, v in hit["input"].items() if isinstance(v, tuple)}), None, kinds
        hit = directed_trials(cur, pin, unit, fn, [a, b], budget_s=min(25, wall))
        if hit:
            return dict(status="different", detail=f"concrete run: {hit['what']}", mode=mode,
                        input={k: v for k, v in hit["input"].items() if isinstance(v, tuple)}), None, kinds
    if pairs:
        same = identical_after_simplify(pairs, min(20, max(4, wall // 3)))
        if same:
            pairs = [q for i, q in enumerate(pairs) if i not in set(same)]
    flags, diffs = [], []
    for kind, x, y, n in pairs:
        if kind == "flag":
            flags.append(x != y)
        elif kind == "out":
            diffs.append(x != y)
        else:
            k = z3.BitVec(f"k!{len(diffs)}", 64)
            diffs.append(z3.And(z3.ULT(k, z3.BitVecVal(n, 64)), z3.Select(x, k) != z3.Select(y, k)))
    tsym = time.time() - t0
    if not diffs and not flags:
        return dict(status="same", detail=f"identical terms after simplification ({mode}; {tsym:.1f}s)", mode=mode), sig, kinds
    goal = flags + ([z3.And(z3.Not(a["abort"]), z3.Or(*diffs))] if diffs else [])
    res = solve_forked(z3.Or(*goal), flags, a["vars"], timeout_ms)
    tz = time.time() - t0 - tsym
    if res["r"] == "unsat":
        return dict(status="equivalent", detail=f"z3: no input distinguishes the current from the pinned source ({mode}; symbolic execution {tsym:.1f}s, z3 {tz:.1f}s)", mode=mode), sig, kinds
    if res["r"] == "sat":
        if used:
            return dict(status="unknown", detail=f"z3: satisfiable, but only {mode}: not a counterexample", mode=mode), None, kinds
        inp = {k: tuple(v) for k, v in res["input"].items()}
        what = "; the panic behaviour differs (debug-profile overflow / assert / index check)" if res.get("flagdiff") else ""
        return dict(status="different", detail="z3 model" + what, input=inp, mode=mode), None, kinds
    return dict(status="unknown", detail=f"z3: {res.get('why')} ({mode}; symbolic execution {tsym:.1f}s, z3 {tz:.1f}s)", mode=mode), None, kinds

# ---------------------------------------------------------------- concrete runs (seed-level differential)
def zero_value(it, crate, unit, tys):
    tys = resolve_type(it, crate, unit, tys)
    t = it.ty(tys)
    if isinstance(t, tuple) and t[0] == "arr" and t[1] in W:
        n = const_len(it, crate, unit, t[2])
        return [I(0, t[1]) for _ in range(n)] if n <= S.SMALL else S.BigArr(n, t[1], I(0, t[1]))
    if isinstance(t, tuple) and t[0] == "named":
        m = re.match(r"^IsaacArray<(.+)>$", t[1])
        if m and it.ty(m.group(1)) in W:
            return S.BigArr(const_len(it, crate, unit, "RAND_SIZE"), it.ty(m.group(1)), I(0, it.ty(m.group(1))))
    raise Unsupported(f"no default value of type {tys}")

def concrete_stream(crate, unit, how, arg, blocks):
    """outputs of `blocks` calls of generate after from_seed(bytes) / seed_from_u64(x), with the two trap flags — the
    interpreter as an ordinary interpreter"""
    it = Interp(crate, symbolic=False, deadline=time.time() + 120)
    if how == "seed":
        core = it.call_assoc(unit, "from_seed", [[I(b, "u8") for b in arg]])
    else:
        core = it.call_assoc(unit, "seed_from_u64", [I(arg, "u64")])
    core = it.val(core)
    g = crate.units[unit]["methods"]["generate"]
    p = [q for q in g.params if q[0] != "self"][0]
    res = zero_value(it, crate, unit, S.tystr(p[1]))
    out = []
    for _ in range(blocks):
        it.call_method(core, "generate", [S.View(res, 0, it.a_len(res))])
        for x in it.elems(res):
            c = S.conc(x)
            if c is None:
                raise Unsupported("non-concrete output in a concrete run")
            out.append(c)
    return tuple(out), S.conc_bool(z3.simplify(it.abort)), S.conc_bool(z3.simplify(it.panic))

def seed_families(unit, spec, repo, nrand=24):
    """(class, 'seed'|'u64', value): the structured seed families of the sampled tie (tools/ties.py) + corpus + random"""
    out = [("random", "seed", bytes(random.Random(811).getrandbits(8) for _ in range(32))), ("zero", "seed", bytes(32)), ("ones", "seed", b"\xff" * 32)]
    rng = random.Random(20260930)
    cdir = os.path.join(VERIF, "corpus")
    def corpus(name):
        try:
            return json.load(open(os.path.join(cdir, name)))
        except Exception:
            return {}
    if unit == "Hc128Core":
        sub = corpus("hc128_subsum_seeds.json")
        for kind in sorted(sub):
            for e in sub[kind][:2]:
                out.append((f"subsum:{kind}", "seed", bytes.fromhex(e["seed"])))
        car = corpus("hc128_carry_seeds.json")
        keys = [k for k in sorted(car, key=int) if 256 <= int(k) < 272] + rng.sample(sorted(car), min(len(car), 12))
        for k in keys:
            out.append((f"carry@{k}", "seed", bytes.fromhex(car[k][0])))
    else:
        if spec.get("word") == 4:
            co = corpus("isaac_state_coincidence.json")
            for kind in sorted(co):
                for e in co[kind][:2]:
                    out.append((f"init-state-{kind}", "seed", bytes.fromhex(e["seed"])))
        for x in (0, 1, (1 << 64) - 1, 1 << 32, (1 << 32) - 1, rng.getrandbits(64)):
            out.append(("u64", "u64", x))
    try:
        os.environ.setdefault("VERIF_REPO", repo)
        import ties
        out += [(c, "seed", s_) for c, s_ in ties.coincidence_seeds(rng, 32, k=1)[:24]]
        out += [(c, "seed", s_) for c, s_ in ties.source_constant_seeds(spec["crate"], 32, limit=16)]
    except Exception:
        pass
    for j in rng.sample(range(256), 8):
        out.append(("basis", "seed", (1 << j).to_bytes(32, "little")))
    for _ in range(nrand):
        out.append(("random", "seed", bytes(rng.getrandbits(8) for _ in range(32))))
    return out

def seed_search(cur, pin, unit, spec, repo, budget_s, blocks=3):
    """first seed on which the two versions' outputs (or trap flags) differ; (hit or None, seeds tried, note)"""
    t0 = time.time()
    tried = 0
    for cls, how, val in seed_families(unit, spec, repo):
        if time.time() - t0 > budget_s:
            break
        try:
            a = concrete_stream(cur, unit, how, val, blocks)
        except Unsupported as e:
            return None, tried, f"the current source cannot be run concretely: {e}"
        except (KeyError, IndexError, AttributeError, TypeError, AssertionError, ValueError, z3.Z3Exception) as e:
            return None, tried, f"the current source cannot be run concretely: interpreter error {e!r}"[:200]
        try:
            b = concrete_stream(pin, unit, how, val, blocks)
        except Exception as e:
            return None, tried, f"the pinned source cannot be run concretely: {e!r}"[:200]
        tried += 1
        if a != b:
            n = next((i for i, (x, y) in enumerate(zip(a[0], b[0])) if x != y), None)
            what = f"output word {n} differs" if n is not None else "the trap flags (abort, debug panic) differ: " + str((a[1:], b[1:]))
            return dict(cls=cls, how=how, val=val, what=what), tried, ""
    return None, tried, ""

def seed_replay(hit, spec, blocks=3):
    nat = "u32" if spec.get("word", 4) == 4 else "u64"
    nbytes = {"Hc128Rng": 64, "IsaacRng": 1024, "Isaac64Rng": 2048}[spec["gen"]] * blocks
    ops = [f"{nat} 0", f"fill 0 {nbytes}", "ser 0"]
    if hit["how"] == "seed":
        return dict(kind="seed", hex=hit["val"].hex(), gen=spec["gen"], ops=ops)
    return dict(kind="u64", hex=f"{hit['val']:016x}", gen=spec["gen"], ops=ops)

def block_replay(unit, spec, fn, inp):
    """operation script material for a z3 counterexample of unit::fn, when its input can be injected into the real crates"""
    base, _, variant = fn.partition(":")
    nat = "u32" if spec.get("word", 4) == 4 else "u64"
    nblk = {"Hc128Rng": 64, "IsaacRng": 1024, "Isaac64Rng": 2048}[spec["gen"]]
    ops = [f"{nat} 0", f"fill 0 {2 * nblk}", "ser 0"]
    if base == "from_seed" and all(f"arg0[{i}]" in inp for i in range(32)):
        return dict(kind="seed", hex=bytes(inp[f"arg0[{i}]"][0] for i in range(32)).hex(), gen=spec["gen"], ops=ops)
    if base == "seed_from_u64" and "arg0" in inp:
        return dict(kind="u64", hex=f"{inp['arg0'][0]:016x}", gen=spec["gen"], ops=ops)
    if not spec["serde"]:
        return None
    wb = spec["word"]
    def words(prefix, n):
        return b"".join(inp.get(f"{prefix}[{i}]", (0, 8 * wb))[0].to_bytes(wb, "little") for i in range(n))
    if base == "generate" and "mem[0]" in inp:
        # serde image of BlockRng / BlockRng64: results, index, (half_used), core = mem, a, b, c; index = 256: the next word is
        # taken from a fresh block
        img = words("arg0", 256) + (256).to_bytes(8, "little") + (b"\0" if wb == 8 else b"")
        img += words("mem", 256) + b"".join(inp[k][0].to_bytes(wb, "little") for k in ("a", "b", "c"))
        return dict(kind="image", hex=img.hex(), gen=spec["gen"], ops=ops)
    if (base == "init" and variant == "2" and "arg0[0]" in inp) or (base in ("from_rng", "try_from_rng") and "src[0]" in inp):
        raw = words("arg0", 256) if base == "init" else bytes(inp.get(f"src[{i}]", (0, 8))[0] for i in range(256 * wb))
        return dict(kind="source", hex=raw.hex(), gen=spec["gen"], how="try" if base == "try_from_rng" else "rng", ops=ops)
    return None

def isaac_array_changed(cur, pin):
    """`IsaacArray` is read as its inner array: its (Deref / AsRef) impls must be the pinned ones"""
    def sig(c):
        f = c.files.get("isaac_array.rs")
        if f is None:
            return None
        out = []
        for trait, ty, fns, consts in f.impls:
            if ty.startswith("IsaacArray") and trait and any(k in trait for k in ("Deref", "AsRef", "AsMut")):
                out.append((trait, sorted((k, [t[1] for t in (v.body or [])]) for k, v in fns.items())))
        return (f.structs.get("IsaacArray") and [(n, [t[1] for t in tt]) for n, tt in f.structs["IsaacArray"]], out)
    return sig(cur) != sig(pin)

def run_block_unit(unit, spec, repo, pinned, only, timeout_ms, wall_s, budget_s):
    t0 = time.time()
    wanted = [(ru, fn) for ru, fn in spec["fns"] if not only or ru in only or f"{ru}.{fn.split(':')[0]}" in only]
    if not wanted:
        return []
    last = max(spec["fns"].index(w) for w in wanted)
    try:
        pin = Crate(pinned, spec["crate"], spec["files"]); pin.seed_lens = {unit: spec["seed"]}
    except Exception as e:
        return [dict(unit=ru, fn=fn, status="unsupported", detail=f"pinned source unreadable: {e!r}"[:200]) for ru, fn in wanted]
    try:
        cur = Crate(repo, spec["crate"], spec["files"]); cur.seed_lens = {unit: spec["seed"]}
    except Exception as e:
        return [dict(unit=ru, fn=fn, status="unsupported", detail=f"cannot read the current source: {e!r}"[:200]) for ru, fn in wanted]
    abs_cur, abs_pin, results = {}, {}, []
    arr_changed = spec["crate"] == "rand_isaac" and isaac_array_changed(cur, pin)
    for ru, fn in spec["fns"][:last + 1]:
        base = fn.split(":")[0]
        tf = time.time()
        if arr_changed and base in ("generate",):
            r, sig, kinds = dict(status="unknown", detail="isaac_array.rs: IsaacArray or its Deref/AsRef impls changed; generate's results buffer is not modelled"), None, None
        else:
            hurry = any(x["status"] == "different" for x in results)      # a difference is already known: spend less on the rest
            tmo, wl = (min(timeout_ms, 6000), min(wall_s, 20)) if hurry else (timeout_ms, wall_s)
            left = UNIT_BUDGET_S - (time.time() - t0)                     # the whole unit should stay within a few minutes
            tmo, wl = int(min(tmo, max(3000, left * 250))), min(wl, max(10, left / 3))
            if left < 45:
                hurry = True
            r, sig, kinds = compare_block(cur, pin, unit, fn, tmo, None, None, wl)
            slow = r["status"] == "unknown" and r.get("detail", "").startswith("z3:") or (r["status"] == "unsupported" and "limit" in r.get("detail", ""))
            if slow and (abs_cur or abs_pin) and not hurry:
                r2, sig2, kinds2 = compare_block(cur, pin, unit, fn, tmo, abs_cur, abs_pin, wl)
                if r2["status"] in ("same", "equivalent") and r2.get("mode") != "direct":
                    r2["status"] = "equivalent"
                    r2["detail"] = r2["detail"] + f"; the direct comparison gave: {r['detail'][:120]}"
                    r, sig, kinds = r2, sig2, kinds2
                else:
                    r["detail"] = r["detail"] + f"; compositional attempt: {r2['status']}: {r2['detail'][:160]}"
        if r["status"] in ("same", "equivalent") and sig is not None and kinds:
            abs_cur.setdefault((kinds[0], unit, base), []).append(sig)
            abs_pin.setdefault((kinds[1], unit, base), []).append(sig)
        r.pop("mode", None)
        r.update(unit=ru, fn=fn, seconds=round(time.time() - tf, 1))
        results.append(r)
    # counterexamples -> replays on the real crates; what z3 could not decide / inject -> seed-level differential run
    need_seed = False
    for r in results:
        if r["status"] == "different":
            rp = block_replay(unit, spec, r["fn"], r["input"])
            r["input"] = {k: f"{v[0]:#x}" for k, v in list(r["input"].items())[:600]}
            if rp:
                r["replay"] = rp
            else:
                need_seed = True
        elif r["status"] in ("unknown", "unsupported"):
            need_seed = True
    have = next((r["replay"] for r in results if r.get("replay")), None)
    if need_seed and have and spec["serde"]:
        # a replayable counterexample of this unit exists already; the undecided functions stay undecided
        need_seed = False
    if need_seed:
        hit, tried, note = seed_search(cur, pin, unit, spec, repo, min(budget_s, max(15, UNIT_BUDGET_S - (time.time() - t0))))
        for r in results:
            if r["status"] == "different" and "replay" not in r:
                if hit:
                    r["replay"] = seed_replay(hit, spec)
                    r["detail"] += f"; the z3 input (an internal state / argument) cannot be injected into the real crates; seed-level run: {hit['what']} for {hit['how']} {hit['cls']}"
                elif not spec["serde"]:
                    r["status"] = "unknown"
                    r["detail"] = (f"z3 found an input (a state / argument that cannot be injected: no serde) on which the versions differ, but none of {tried} "
                                   f"structured seeds shows a difference in {3} blocks {note}").strip()
                else:
                    r["detail"] += f"; no direct replay for this function (see its callers); {tried} seeds show no difference {note}".rstrip()
            elif r["status"] in ("unknown", "unsupported"):
                if hit:
                    r["undecided"] = r["status"] + ": " + r["detail"][:200]
                    r["status"] = "different"
                    r["detail"] = f"concrete run of the two sources: {hit['what']} for {hit['how']} {hit['cls']} (the symbolic comparison of this function was {r['undecided']})"
                    r["replay"] = seed_replay(hit, spec)
                    r["input"] = {hit["how"]: hit["val"].hex() if isinstance(hit["val"], bytes) else f"{hit['val']:#x}"}
                else:
                    r["detail"] += f"; {tried} structured seeds run concretely on both sources: no difference {note}".rstrip()
    return [r for r in results if (r["unit"], r["fn"]) in wanted]

def image_of(inp, unit, fn):
    """harness script line(s) that reproduce the input on the real crates / the Lean model"""
    if fn == "from_seed":
        n = SEED_LENS[unit]
        b = bytes(inp[f"seed[{i}]"][0] for i in range(n))
        return dict(kind="seed", hex=b.hex())
    if fn == "seed_from_u64":
        return dict(kind="u64", hex=f"{inp['x'][0]:016x}")
    # state image = little-endian words in field order (bincode layout of the derive)
    out = b""
    for n, (v, w) in inp.items():
        out += v.to_bytes(w // 8, "little")
    return dict(kind="state", hex=out.hex())

def main():
    repo = sys.argv[1]
    pinned = PINNED
    only = None
    timeout_ms = 20000
    budget_s = 1500          # rand_xoshiro / rand_xorshift (the 512-bit jumps take minutes); the block units have their own budget
    wall_s, seed_budget_s = 60, 45
    a = sys.argv[2:]
    while a:
        if a[0] == "--pinned":
            pinned = a[1]; a = a[2:]
        elif a[0] == "--only":
            only = set(a[1].split(",")); a = a[2:]
        elif a[0] == "--timeout":
            timeout_ms = int(a[1]); a = a[2:]
        elif a[0] == "--wall":
            wall_s = int(a[1]); a = a[2:]
        elif a[0] == "--seed-budget":
            seed_budget_s = int(a[1]); a = a[2:]
        elif a[0] == "--budget":
            budget_s = int(a[1]); a = a[2:]
        else:
            a = a[1:]
    t0 = time.time()
    results = []
    block_names = set(BLOCK_UNITS) | set(UNIT_OF_REPORT)
    old_needed = not only or any(o.split(".")[0] not in block_names for o in only)
    error = None
    cur = pin = None
    if old_needed:
        try:
            cur, pin = load(repo), load(pinned)
        except Exception as e:
            # a source file of the current tree is outside the parser's subset: nothing of these crates can be compared
            error = f"cannot read the sources: {e!r}"[:300]
    for cname in (("rand_xoshiro", "rand_xorshift") if cur is not None else ()):
        for unit in SEED_LENS:
            if unit not in pin[cname].units or not pin[cname].units[unit]["methods"]:
                continue
            fns = ["next_u32", "next_u64", "from_seed", "seed_from_u64", "jump", "long_jump"] + [f"fill_bytes:{n}" for n in FILL_NS]
            found = False
            for fn in fns:
                base = fn.split(":")[0]
                if found or time.time() - t0 > budget_s:
                    continue
                if base not in pin[cname].units[unit]["methods"]:
                    continue
                if only and f"{unit}.{base}" not in only and unit not in only:
                    continue
                if unit not in cur[cname].units or base not in cur[cname].units[unit]["methods"]:
                    results.append(dict(unit=unit, fn=fn, status="unsupported", detail="function no longer exists"))
                    continue
                r = compare(cur[cname], pin[cname], unit, fn, timeout_ms)
                r.update(unit=unit, fn=fn)
                if r["status"] == "different":
                    found = True
                    r["replay"] = image_of(r["input"], unit, base)
                    r["input"] = {k: f"{v[0]:#x}" for k, v in r["input"].items()}
                results.append(r)
    for unit, fn in (JITTER_FNS if cur is not None else ()):
        if only and f"{unit}.{fn}" not in only and unit not in only:
            continue
        r = compare(cur["rand_jitter"], pin["rand_jitter"], unit, fn, timeout_ms, runner=lambda c, u, f, m: run_jitter(c, u, f))
        r.update(unit=unit, fn=fn)
        if r["status"] == "different":
            inp = r["input"]
            if unit == "JitterRng":
                r["replay"] = dict(kind="stir", hex=f"{inp['data'][0]:016x}")
            elif unit == "JitterLfsr":
                r["replay"] = dict(kind="lfsr", hex=f"{inp['data'][0]:016x}", time=f"{inp['time'][0]:x}")
            r["input"] = {k: f"{v[0]:#x}" for k, v in inp.items()}
        results.append(r)
    S.SIMP_LIMIT = SIMP_DEFAULT
    for unit, spec in BLOCK_UNITS.items():
        try:
            results += run_block_unit(unit, spec, repo, pinned, only, timeout_ms, wall_s, seed_budget_s)
        except Exception as e:
            results.append(dict(unit=unit, fn="*", status="unsupported", detail=f"srcdiff crashed on this unit: {e!r}"[:300]))
    out = dict(results=results, seconds=round(time.time() - t0, 1))
    if error:
        out["error"] = error
    json.dump(out, sys.stdout)

if __name__ == "__main__":
    main()
