#!/usr/bin/env python3
"""srcdiff_sweep.py — apply every seeded change / refactoring that touches rand_hc or rand_isaac to a scratch worktree of /repo
and record what srcdiff.py (current vs pinned source, symexec + z3) says about the block-core functions.
    python3 tools/srcdiff_sweep.py [--only ID,ID] [--jobs N] > seeded/SRCDIFF_SWEEP_block.json
/repo itself is never modified; the worktrees are removed afterwards."""
import json, os, subprocess, sys, glob, concurrent.futures
V = os.path.dirname(os.path.dirname(os.path.abspath(__file__)))
TOOLPY = "/opt/veriftools/pyvenv/bin/python"
UNITS = "Hc128Fns,Hc128Core,IsaacCore,Isaac64Core"

def one(d):
    pid = os.path.basename(d)
    patch = os.path.join(d, "patch.diff")
    wt = f"/tmp/vt8sweep_{pid}"
    subprocess.run(["git", "-C", "/repo", "worktree", "remove", "--force", wt], capture_output=True)
    subprocess.run(["git", "-C", "/repo", "worktree", "add", "--detach", wt, "HEAD"], capture_output=True, check=True)
    try:
        a = subprocess.run(["git", "-C", wt, "apply", patch], capture_output=True, text=True)
        if a.returncode:
            return dict(id=pid, error="patch does not apply: " + a.stderr[:200])
        try:
            p = subprocess.run([TOOLPY, os.path.join(V, "tools", "srcdiff.py"), wt, "--only", UNITS], capture_output=True, text=True, timeout=1200)
        except subprocess.TimeoutExpired:
            return dict(id=pid, error="srcdiff did not finish within 1200 s")
        try:
            r = json.loads(p.stdout)
        except Exception:
            return dict(id=pid, error="srcdiff: " + (p.stderr or p.stdout)[-300:])
        rows = {}
        for x in r["results"]:
            if x["status"] != "same":
                rows[f"{x['unit']}.{x['fn']}"] = dict(status=x["status"], detail=x.get("detail", "")[:400], replay=(x.get("replay") or {}).get("kind"),
                                                      seconds=x.get("seconds"))
        return dict(id=pid, kind="refactor" if "/refactors/" in d else "seeded", seconds=r.get("seconds"), functions=len(r["results"]), not_same=rows)
    finally:
        subprocess.run(["git", "-C", "/repo", "worktree", "remove", "--force", wt], capture_output=True)

def main():
    only, jobs = None, 6
    if "--only" in sys.argv:
        only = set(sys.argv[sys.argv.index("--only") + 1].split(","))
    if "--jobs" in sys.argv:
        jobs = int(sys.argv[sys.argv.index("--jobs") + 1])
    dirs = []
    for d in sorted(glob.glob(os.path.join(V, "seeded", "*")) + glob.glob(os.path.join(V, "refactors", "*"))):
        patch = os.path.join(d, "patch.diff")
        if not os.path.exists(patch):
            continue
        txt = open(patch).read()
        if "rand_hc/src" not in txt and "rand_isaac/src" not in txt:
            continue
        if only and os.path.basename(d) not in only:
            continue
        dirs.append(d)
    rows = []
    with concurrent.futures.ThreadPoolExecutor(jobs) as ex:
        for fu in concurrent.futures.as_completed([ex.submit(one, d) for d in dirs]):
            r = fu.result()
            rows.append(r)
            print(json.dumps(r), file=sys.stderr, flush=True)
    rows.sort(key=lambda r: r["id"])
    print(json.dumps(rows, indent=1))

if __name__ == "__main__":
    main()
