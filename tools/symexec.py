#!/opt/veriftools/pyvenv/bin/python
"""symexec.py — a second, independent semantics of the translated Rust subset: an interpreter over z3 bit-vector
terms.  With concrete inputs it is an ordinary interpreter (terms are simplified to values as it goes); with symbolic
inputs it yields one term per output, so two versions of a function can be compared by the solver.

Used by the checks (through `tools/srcdiff.py`) to search for a *failing input* when the proved tie (exttie.py) no
longer checks: the current source of a function is compared with the pinned source for which the correspondence
theorems were proved.  `sat` gives a concrete state / seed on which the code's behaviour changed (replayed on the real
crates and on the Lean model by the caller); `unsat` shows the rewrite is behaviour-preserving (an SMT result, not a
Lean theorem: it is reported as such); loops whose bounds depend on symbolic data are outside the fragment.

Run with the tooling interpreter (python3-vt): it needs z3."""
import sys, os, json, re
sys.path.insert(0, os.path.dirname(os.path.abspath(__file__)))
import z3
import rsfront
from rsfront import Unsupported

W = {"u8": 8, "u16": 16, "u32": 32, "u64": 64, "u128": 128, "i8": 8, "i16": 16, "i32": 32, "i64": 64, "i128": 128}

class I:
    """integer value: z3 bit-vector + Rust type"""
    __slots__ = ("e", "ty")
    def __init__(self, e, ty):
        self.e, self.ty = e, ty
    @property
    def w(self):
        return W[self.ty]
    @property
    def signed(self):
        return self.ty.startswith("i")

def lit(v, ty):
    return I(z3.BitVecVal(v % (1 << W[ty]), W[ty]), ty)

def simp(e):
    return z3.simplify(e)

def conc(v):
    """python int of a concrete I (else None)"""
    if isinstance(v, int):
        return v
    if isinstance(v, I):
        s = simp(v.e)
        if z3.is_bv_value(s):
            return s.as_long()
    return None

def conc_bool(b):
    if isinstance(b, bool):
        return b
    s = simp(b)
    if z3.is_true(s):
        return True
    if z3.is_false(s):
        return False
    return None

class Obj:
    def __init__(self, unit, fields):
        self.unit, self.f = unit, fields
    def copy(self):
        return Obj(self.unit, {k: (list(v) if isinstance(v, list) else v) for k, v in self.f.items()})

class Ret(Exception):
    def __init__(self, v):
        self.v = v
class Brk(Exception):
    pass

class Crate:
    """all units (struct + methods) and free functions of one crate directory"""
    def __init__(self, repo, crate, files):
        self.units, self.fns, self.macros, self.consts = {}, {}, {}, {}
        parsed = []
        for fn in files:
            p = os.path.join(repo, crate, "src", fn)
            if not os.path.exists(p):
                continue
            f = rsfront.load(p)
            parsed.append(f)
            self.macros.update(f.macros)
        for f in parsed:
            for n, (tt, et) in f.consts.items():
                self.consts[n] = (tt, et)
            for n, fn_ in f.fns.items():
                self.fns[n] = fn_
            for sname, fields in f.structs.items():
                self.units.setdefault(sname, dict(fields=fields, methods={}))
            for trait, ty, fns, consts in f.impls:
                u = self.units.setdefault(ty, dict(fields=[], methods={}))
                for k, v in fns.items():
                    if v.body is not None and (k not in u["methods"] or trait is None):
                        u["methods"][k] = v

MAX_STEPS = 400000

class Interp:
    def __init__(self, crate, symbolic=False):
        self.c, self.symbolic = crate, symbolic
        self.steps = 0
        self.bodies = {}
        self.wrapping_units = set()        # structs whose integer fields are Wrapping<T>: plain operators wrap there
        self.pc = []                       # path condition (symbolic branches taken)
        self.panic = z3.BoolVal(False)     # "a debug-profile build panics": failed assert!/debug_assert!, overflow of plain + - *

    def may_panic(self, cond):
        """record that the run panics when `cond` (a z3 Bool / python bool) holds on the current path"""
        if isinstance(cond, bool):
            if not cond:
                return
            cond = z3.BoolVal(True)
        c = z3.And(*(self.pc + [cond])) if self.pc else cond
        self.panic = z3.simplify(z3.Or(self.panic, c))

    # ------------------------------------------------------------ types
    def ty(self, s):
        s = s.strip()
        while s.startswith("&"):
            s = s[1:].lstrip()
            if s.startswith("mut "):
                s = s[4:]
        m = re.match(r"^(?:w|Wrapping)<(.+)>$", s)
        if m:
            return self.ty(m.group(1))
        if s in W:
            return s
        if s in ("usize", "isize"):
            return "usize"
        m = re.match(r"^\[(.+);(.+)\]$", s)
        if m:
            return ("arr", self.ty(m.group(1)), m.group(2).strip())
        return ("named", s)

    def cast_to(self, v, ty):
        if ty == "usize":
            if isinstance(v, int):
                return v
            c = conc(v)
            if c is None:
                raise Unsupported("symbolic value used as usize")
            return c
        if ty not in W:
            return v
        if isinstance(v, int):
            return lit(v, ty)
        if isinstance(v, bool) or z3.is_bool(v) if not isinstance(v, I) else False:
            return I(z3.If(v, z3.BitVecVal(1, W[ty]), z3.BitVecVal(0, W[ty])), ty)
        w0, w1 = v.w, W[ty]
        if w1 == w0:
            return I(v.e, ty)
        if w1 < w0:
            return I(simp(z3.Extract(w1 - 1, 0, v.e)), ty)
        return I(simp(z3.SignExt(w1 - w0, v.e) if v.signed else z3.ZeroExt(w1 - w0, v.e)), ty)

    def coerce2(self, a, b):
        if isinstance(a, int) and isinstance(b, I):
            return lit(a, b.ty), b
        if isinstance(b, int) and isinstance(a, I):
            return a, lit(b, a.ty)
        return a, b

    # ------------------------------------------------------------ functions
    def body(self, key, fn, macros):
        if key not in self.bodies:
            self.bodies[key] = rsfront.parse_body(fn.body, macros)
        return self.bodies[key]

    def call_method(self, obj, name, args):
        u = self.c.units[obj.unit]
        fn = u["methods"].get(name)
        if fn is None:
            raise Unsupported(f"method {obj.unit}::{name}")
        env = [{}]
        pi = 0
        for p in fn.params:
            if p[0] == "self":
                continue
            env[0][p[0]] = self.bind(args[pi], "".join(t[1] for t in p[1])); pi += 1
        frame = dict(self=obj, unit=obj.unit, ret=("".join(t[1] for t in fn.ret) if fn.ret else None),
                     checked=obj.unit not in self.wrapping_units)
        return self.run_body(self.body((obj.unit, name), fn, self.c.macros), env, frame)

    def call_assoc(self, unit, name, args):
        u = self.c.units[unit]
        fn = u["methods"].get(name)
        if fn is None:
            raise Unsupported(f"function {unit}::{name}")
        env = [{}]
        for p, a in zip([p for p in fn.params if p[0] != "self"], args):
            env[0][p[0]] = self.bind(a, "".join(t[1] for t in p[1]))
        frame = dict(self=None, unit=unit, ret=("".join(t[1] for t in fn.ret) if fn.ret else None),
                     checked=unit not in self.wrapping_units)
        return self.run_body(self.body((unit, name), fn, self.c.macros), env, frame)

    def call_free(self, name, args, unit):
        fn = self.c.fns[name]
        env = [{}]
        for p, a in zip(fn.params, args):
            env[0][p[0]] = self.bind(a, "".join(t[1] for t in p[1]))
        frame = dict(self=None, unit=unit, ret=("".join(t[1] for t in fn.ret) if fn.ret else None))
        return self.run_body(self.body(("::", name), fn, self.c.macros), env, frame)

    def bind(self, v, tys):
        t = self.ty(tys)
        if t in W and not isinstance(v, (list, Obj)):
            return self.cast_to(v, t)
        return v

    def run_body(self, body, env, frame):
        stmts, tail = body
        try:
            r = self.block(stmts, env, frame, tail)
        except Ret as e:
            r = e.v
        rt = frame["ret"]
        if rt and self.ty(rt) in W and isinstance(r, (int, I)):
            r = self.cast_to(r, self.ty(rt))
        return r

    # ------------------------------------------------------------ statements
    def look(self, env, n):
        for sc in reversed(env):
            if n in sc:
                return sc
        return None

    def block(self, stmts, env, frame, tail=None, want=None):
        """runs the statements in a fresh scope and evaluates the tail expression (if any) inside it"""
        env.append({})
        try:
            for i, s in enumerate(stmts):
                self.steps += 1
                if self.steps > MAX_STEPS:
                    raise Unsupported("step limit")
                k = s[0]
                if k == "expr" and s[1][0] == "if":
                    self.if_stmt(s[1], stmts[i + 1:], tail, env, frame)
                    continue
                self.stmt(s, env, frame)
            return self.ev(tail, env, frame, want) if tail is not None else None
        finally:
            env.pop()

    def snapshot(self, env, frame):
        return ([dict((k, (list(v) if isinstance(v, list) else (v.copy() if isinstance(v, Obj) else v))) for k, v in sc.items()) for sc in env],
                frame["self"].copy() if frame["self"] is not None else None)

    def restore(self, env, frame, snap):
        e, s = snap
        for sc, old in zip(env, e):
            sc.clear(); sc.update(old)
        if s is not None:
            frame["self"].f = s.f

    def merge_val(self, c, a, b):
        if a is b:
            return a
        if isinstance(a, list) and isinstance(b, list) and len(a) == len(b):
            return [self.merge_val(c, x, y) for x, y in zip(a, b)]
        if isinstance(a, Obj) and isinstance(b, Obj):
            return Obj(a.unit, {k: self.merge_val(c, a.f[k], b.f[k]) for k in a.f})
        if isinstance(a, int) and isinstance(b, int):
            if a == b:
                return a
            raise Unsupported("merge of different untyped integers")
        a, b = self.coerce2(a, b)
        if isinstance(a, I) and isinstance(b, I):
            if a.e.eq(b.e):
                return a
            return I(z3.If(c, a.e, b.e), a.ty)
        if isinstance(a, bool) or isinstance(b, bool) or (not isinstance(a, I) and z3.is_bool(a)):
            return z3.If(c, a, b)
        if a is None and b is None:
            return None
        raise Unsupported("merge of incompatible values")

    def if_stmt(self, e, rest, tail, env, frame):
        """`if` in statement position; a symbolic early return finishes the rest of the enclosing block on the other path"""
        _, c, th, el = e
        cv = self.ev(c, env, frame)
        cb = conc_bool(cv)
        if cb is not None:
            if cb:
                self.block(th[0], env, frame, th[1])
            elif el is not None:
                self.block(el[0], env, frame, el[1])
            return False
        if not self.symbolic:
            raise Unsupported("non-concrete condition in concrete mode")
        # symbolic condition: run both continuations on copies and merge (early returns included)
        snap = self.snapshot(env, frame)
        def run(branch):
            ret = None
            self.pc.append(cv if branch is th else z3.Not(cv))
            try:
                try:
                    if branch is not None:
                        self.block(branch[0], env, frame, branch[1])
                finally:
                    self.pc.pop()
            except Ret as r:
                return ("ret", r.v), self.snapshot(env, frame)
            return ("go", None), self.snapshot(env, frame)
        r1, s1 = run(th)
        self.restore(env, frame, snap)
        r2, s2 = run(el)
        if r1[0] == "go" and r2[0] == "go":
            self.merge_state(cv, env, frame, s1, s2)
            return False
        # at least one branch returns: finish the rest of the block on the other path(s), then merge the results
        def finish(r, s):
            if r[0] == "ret":
                return r[1], s
            self.restore(env, frame, s)
            try:
                for i, st in enumerate(rest):
                    if st[0] == "expr" and st[1][0] == "if":
                        self.if_stmt(st[1], rest[i + 1:], tail, env, frame)
                        continue
                    self.stmt(st, env, frame)
                if tail is None:
                    raise Unsupported("symbolic early return in a block without a final value")
                return self.ev(tail, env, frame), self.snapshot(env, frame)
            except Ret as rr:
                return rr.v, self.snapshot(env, frame)
        v1, f1 = finish(r1, s1)
        v2, f2 = finish(r2, s2)
        self.merge_state(cv, env, frame, f1, f2)
        raise Ret(self.merge_val(cv, v1, v2))

    def merge_state(self, c, env, frame, s1, s2):
        e1, o1 = s1
        e2, o2 = s2
        for sc, a, b in zip(env, e1, e2):
            sc.clear()
            for k in a:
                if k in b:
                    sc[k] = self.merge_val(c, a[k], b[k])
        if o1 is not None:
            frame["self"].f = self.merge_val(c, o1, o2).f

    def stmt(self, s, env, frame):
        k = s[0]
        if k == "let":
            _, pat, mut, ty, init = s
            v = self.ev(init, env, frame, want=self.ty(ty) if ty else None) if init is not None else None
            if ty and self.ty(ty) in W and isinstance(v, (int, I)):
                v = self.cast_to(v, self.ty(ty))
            if pat[0] == "name":
                env[-1][pat[1]] = list(v) if isinstance(v, list) else v
            else:
                if not isinstance(v, (list, tuple)) or len(v) != len(pat[1]):
                    raise Unsupported("tuple pattern")
                for n, x in zip(pat[1], v):
                    env[-1][n] = x
            return
        if k == "const":
            v = self.ev(s[3], env, frame, want=self.ty(s[2]))
            env[-1][s[1]] = v
            return
        if k == "assign":
            _, place, op, rhs = s
            if op is None:
                cur = None
                try:
                    cur = self.ev(place, env, frame)
                except Unsupported:
                    pass
                want = cur.ty if isinstance(cur, I) else None
                v = self.ev(rhs, env, frame, want=want)
                if isinstance(cur, I) and isinstance(v, int):
                    v = lit(v, cur.ty)
            else:
                v = self.ev(("bin", op, place, rhs), env, frame)
            self.store(place, v, env, frame)
            return
        if k == "expr":
            e = s[1]
            if e[0] == "macro":
                if e[1] in ("trace", "debug", "info", "warn", "error"):
                    return
                if e[1] in ("debug_assert", "assert", "debug_assert_eq", "assert_eq", "debug_assert_ne", "assert_ne"):
                    parts = rsfront.split_top(e[2])
                    try:
                        if e[1].endswith("assert"):
                            c = self.ev(rsfront.Parser(parts[0], self.c.macros).parse_expr_all(), env, frame)
                        else:
                            a = self.ev_(rsfront.Parser(parts[0], self.c.macros).parse_expr_all(), env, frame)
                            b = self.ev_(rsfront.Parser(parts[1], self.c.macros).parse_expr_all(), env, frame, a.ty if isinstance(a, I) else None)
                            c = self.binop("==" if e[1].endswith("_eq") else "!=", a, b, None)
                    except Unsupported:
                        raise
                    cb = conc_bool(c)
                    self.may_panic((not cb) if cb is not None else z3.Not(c))
                    return
                raise Unsupported(f"macro {e[1]}!")
            self.ev(e, env, frame)
            return
        if k == "for":
            _, var, it, body = s
            seq = self.iterable(it, env, frame)
            for x in seq:
                env.append({})
                if var[0] == "name":
                    env[-1][var[1]] = x
                else:
                    for n, y in zip(var[1], x):
                        env[-1][n] = y
                try:
                    self.block(body[0], env, frame, body[1])
                except Brk:
                    env.pop()
                    break
                env.pop()
            return
        if k in ("while", "loop"):
            n = 0
            while True:
                n += 1
                if n > 200000:
                    raise Unsupported("loop bound")
                if k == "while":
                    cb = conc_bool(self.ev(s[1], env, frame))
                    if cb is None:
                        raise Unsupported("loop condition depends on symbolic data")
                    if not cb:
                        break
                try:
                    b = s[2] if k == "while" else s[1]
                    self.block(b[0], env, frame, b[1])
                except Brk:
                    break
            return
        if k == "fn":
            env[-1]["fn:" + s[1].name] = s[1]
            return
        if k == "return":
            raise Ret(self.ev(s[1], env, frame) if s[1] is not None else None)
        if k == "break":
            raise Brk()
        raise Unsupported(f"statement {k}")

    def iterable(self, it, env, frame):
        while it[0] in ("ref", "paren"):
            it = it[2] if it[0] == "ref" else it[1]
        if it[0] == "range":
            lo = self.cast_to(self.ev(it[1], env, frame), "usize") if it[1] is not None else 0
            hi = self.cast_to(self.ev(it[2], env, frame), "usize")
            return list(range(lo, hi + (1 if it[3] else 0)))
        if it[0] == "mcall" and it[2] in ("iter", "iter_mut") :
            it = it[1]
        if it[0] == "mcall" and it[2] == "step_by" and it[1][0] in ("paren", "range"):
            r = it[1][1] if it[1][0] == "paren" else it[1]
            lo = self.cast_to(self.ev(r[1], env, frame), "usize"); hi = self.cast_to(self.ev(r[2], env, frame), "usize")
            st = self.cast_to(self.ev(it[3][0], env, frame), "usize")
            return list(range(lo, hi, st))
        if it[0] == "mcall" and it[2] == "rev":
            return list(reversed(self.iterable(it[1], env, frame)))
        v = self.ev(it, env, frame)
        if isinstance(v, list):
            return list(v)
        raise Unsupported("for over this iterable")

    # ------------------------------------------------------------ places
    def store(self, place, v, env, frame):
        k = place[0]
        if k in ("paren", "deref"):
            return self.store(place[1], v, env, frame)
        if k == "path" and len(place[1]) == 1:
            n = place[1][0]
            if n == "self":
                frame["self"].f = v.f
                return
            sc = self.look(env, n)
            if sc is None:
                raise Unsupported(f"assignment to unknown {n}")
            old = sc[n]
            if isinstance(old, I) and isinstance(v, (int, I)):
                v = self.cast_to(v, old.ty)
            sc[n] = list(v) if isinstance(v, list) else v
            return
        if k == "field":
            base = self.ev(place[1], env, frame)
            if isinstance(base, Obj):
                old = base.f.get(place[2])
                if isinstance(old, I) and isinstance(v, (int, I)):
                    v = self.cast_to(v, old.ty)
                base.f[place[2]] = list(v) if isinstance(v, list) else v
                return
            if place[2] == "0":
                return self.store(place[1], v, env, frame)
            raise Unsupported("field store")
        if k == "index":
            base = self.ev(place[1], env, frame)
            i = self.cast_to(self.ev(place[2], env, frame), "usize")
            if not isinstance(base, list):
                raise Unsupported("index store into non-array")
            if i >= len(base):
                raise Unsupported("index out of bounds (the real code would panic)")
            old = base[i]
            if isinstance(old, I) and isinstance(v, (int, I)):
                v = self.cast_to(v, old.ty)
            base[i] = v
            return
        raise Unsupported(f"store to {k}")

    # ------------------------------------------------------------ expressions
    def binop(self, op, a, b, want):
        if op in ("&&", "||"):
            ca, cb = conc_bool(a), conc_bool(b)
            if ca is not None and cb is not None:
                return (ca and cb) if op == "&&" else (ca or cb)
            return z3.And(a, b) if op == "&&" else z3.Or(a, b)
        if isinstance(a, list) or isinstance(b, list):
            if op in ("==", "!=") and isinstance(a, list) and isinstance(b, list) and len(a) == len(b):
                parts = [self.binop("==", x, y, None) for x, y in zip(a, b)]
                r = z3.And(*[p if not isinstance(p, bool) else z3.BoolVal(p) for p in parts]) if parts else True
                r = simp(r) if not isinstance(r, bool) else r
                return r if op == "==" else (z3.Not(r) if not isinstance(r, bool) else not r)
            raise Unsupported("array operands")
        if op in ("<<", ">>"):
            if isinstance(a, int) and want in W:
                a = lit(a, want)
            if isinstance(a, int):
                sh = conc(b)
                if sh is None:
                    raise Unsupported("shift of an untyped literal by a symbolic amount")
                return ("defer", a, op, sh)
            sh = conc(b)
            if sh is not None:
                if sh >= a.w:
                    raise Unsupported("shift by at least the width")
                se = z3.BitVecVal(sh, a.w)
            else:
                bb = b
                se = z3.ZeroExt(a.w - bb.w, bb.e) if bb.w < a.w else z3.Extract(a.w - 1, 0, bb.e)
            if op == "<<":
                return I(simp(a.e << se), a.ty)
            return I(simp(a.e >> se) if a.signed else simp(z3.LShR(a.e, se)), a.ty)
        a, b = self.undefer(a, b), self.undefer(b, a)
        a, b = self.coerce2(a, b)
        if isinstance(a, int) and isinstance(b, int):
            if want in W:
                a, b = lit(a, want), lit(b, want)
            else:
                import operator
                f = {"+": operator.add, "-": operator.sub, "*": operator.mul, "/": operator.floordiv, "%": operator.mod,
                     "^": operator.xor, "|": operator.or_, "&": operator.and_, "==": operator.eq, "!=": operator.ne,
                     "<": operator.lt, ">": operator.gt, "<=": operator.le, ">=": operator.ge}[op]
                return f(a, b)
        if not isinstance(a, I) or not isinstance(b, I):
            if op in ("==", "!="):
                r = (a == b)
                if isinstance(r, bool):
                    return r if op == "==" else not r
                return simp(r) if op == "==" else simp(z3.Not(r))
            raise Unsupported(f"operands of {op}")
        if a.w != b.w:
            raise Unsupported(f"width mismatch in {op}")
        x, y = a.e, b.e
        if op in ("==", "!=", "<", ">", "<=", ">="):
            if op == "==":
                r = x == y
            elif op == "!=":
                r = x != y
            elif a.signed:
                r = {"<": x < y, ">": x > y, "<=": x <= y, ">=": x >= y}[op]
            else:
                r = {"<": z3.ULT(x, y), ">": z3.UGT(x, y), "<=": z3.ULE(x, y), ">=": z3.UGE(x, y)}[op]
            return simp(r)
        r = {"^": lambda: x ^ y, "|": lambda: x | y, "&": lambda: x & y, "+": lambda: x + y, "-": lambda: x - y,
             "*": lambda: x * y,
             "/": lambda: (x / y) if a.signed else z3.UDiv(x, y),
             "%": lambda: z3.SRem(x, y) if a.signed else z3.URem(x, y)}[op]()
        return I(simp(r), a.ty)

    def undefer(self, v, other):
        if isinstance(v, tuple) and v and v[0] == "defer":
            _, l, op, sh = v
            ty = other.ty if isinstance(other, I) else None
            if ty is None:
                return (l << sh) if op == "<<" else (l >> sh)
            return self.binop(op, lit(l, ty), sh, None)
        return v

    def ev(self, e, env, frame, want=None):
        v = self.ev_(e, env, frame, want)
        if isinstance(v, tuple) and v and v[0] == "defer" and want in W:
            v = self.binop(v[2], lit(v[1], want), v[3], None)
        if want in W and isinstance(v, int) and not isinstance(v, bool):
            v = lit(v, want)
        return v

    def ev_(self, e, env, frame, want=None):
        self.steps += 1
        if self.steps > MAX_STEPS:
            raise Unsupported("step limit")
        k = e[0]
        if k == "lit":
            if e[2] in W:
                return lit(e[1], e[2])
            return e[1]
        if k == "bool":
            return e[1]
        if k == "paren":
            return self.ev(e[1], env, frame, want)
        if k == "ref" :
            return self.ev(e[2], env, frame, want)
        if k == "deref":
            return self.ev(e[1], env, frame, want)
        if k == "path":
            segs = e[1]
            if len(segs) == 1:
                n = segs[0]
                if n == "self":
                    return frame["self"]
                sc = self.look(env, n)
                if sc is not None:
                    return sc[n]
                if n in self.c.consts:
                    tt, et = self.c.consts[n]
                    ty = self.ty("".join(t[1] for t in tt))
                    v = self.ev(rsfront.Parser(et, self.c.macros).parse_expr_all(), [{}], frame, want=ty if ty in W else None)
                    return v
                raise Unsupported(f"unknown name {n}")
            if segs[0] in ("u8", "u16", "u32", "u64", "i32", "i64", "usize") and segs[1] in ("MAX", "MIN", "BITS"):
                ty = segs[0]
                w = W.get(ty, 64)
                sg = ty.startswith("i")
                val = {"MAX": ((1 << (w - 1)) - 1) if sg else (1 << w) - 1, "MIN": -(1 << (w - 1)) if sg else 0, "BITS": w}[segs[1]]
                if segs[1] == "BITS":
                    return lit(val, "u32")
                return lit(val, ty) if ty in W else val
            if segs[-1] in self.c.consts:
                return self.ev(("path", [segs[-1]]), env, frame, want)
            raise Unsupported(f"path {'::'.join(segs)}")
        if k == "field":
            b = self.ev(e[1], env, frame)
            if isinstance(b, Obj):
                if e[2] not in b.f:
                    raise Unsupported(f"field {e[2]}")
                return b.f[e[2]]
            if e[2] == "0":
                return b
            raise Unsupported(f"field .{e[2]}")
        if k == "index":
            b = self.ev(e[1], env, frame)
            if e[2][0] == "range":
                lo = self.cast_to(self.ev(e[2][1], env, frame), "usize") if e[2][1] is not None else 0
                hi = self.cast_to(self.ev(e[2][2], env, frame), "usize") if e[2][2] is not None else len(b)
                return b[lo:hi + (1 if e[2][3] else 0)]
            i = self.cast_to(self.ev(e[2], env, frame), "usize")
            if not isinstance(b, list):
                raise Unsupported("index into non-array")
            if i >= len(b):
                raise Unsupported("index out of bounds (the real code would panic)")
            return b[i]
        if k == "cast":
            v = self.ev(e[1], env, frame)
            v = self.undefer(v, None) if isinstance(v, tuple) else v
            return self.cast_to(v, self.ty(e[2]))
        if k == "un":
            v = self.ev(e[2], env, frame, want)
            if e[1] == "!":
                if isinstance(v, bool):
                    return not v
                if isinstance(v, I):
                    return I(simp(~v.e), v.ty)
                return simp(z3.Not(v))
            if isinstance(v, int):
                return -v
            return I(simp(-v.e), v.ty)
        if k == "bin":
            op = e[1]
            cmp = op in ("==", "!=", "<", ">", "<=", ">=")
            if op == "&&":
                a = self.ev(e[2], env, frame)
                if conc_bool(a) is False:
                    return False
                return self.binop(op, a, self.ev(e[3], env, frame), None)
            if op == "||":
                a = self.ev(e[2], env, frame)
                if conc_bool(a) is True:
                    return True
                return self.binop(op, a, self.ev(e[3], env, frame), None)
            a = self.ev_(e[2], env, frame, None if cmp else want)
            b = self.ev_(e[3], env, frame, (a.ty if isinstance(a, I) else (None if cmp else want)) if op not in ("<<", ">>") else None)
            if op in ("+", "-", "*") and frame.get("checked", True):
                a2, b2 = self.coerce2(self.undefer(a, b), self.undefer(b, a))
                if isinstance(a2, I) and isinstance(b2, I) and a2.w == b2.w:
                    sg = a2.signed
                    if op == "+":
                        okc = z3.And(z3.BVAddNoOverflow(a2.e, b2.e, sg), z3.BVAddNoUnderflow(a2.e, b2.e)) if sg else z3.BVAddNoOverflow(a2.e, b2.e, False)
                    elif op == "-":
                        okc = z3.And(z3.BVSubNoOverflow(a2.e, b2.e), z3.BVSubNoUnderflow(a2.e, b2.e, sg)) if sg else z3.BVSubNoUnderflow(a2.e, b2.e, False)
                    else:
                        okc = z3.And(z3.BVMulNoOverflow(a2.e, b2.e, sg), z3.BVMulNoUnderflow(a2.e, b2.e)) if sg else z3.BVMulNoOverflow(a2.e, b2.e, False)
                    cb = conc_bool(z3.simplify(okc))
                    self.may_panic((not cb) if cb is not None else z3.Not(okc))
            return self.binop(op, a, b, None if cmp else want)
        if k == "mcall":
            return self.mcall(e, env, frame, want)
        if k == "call":
            return self.call(e, env, frame, want)
        if k == "if":
            _, c, th, el = e
            cv = self.ev(c, env, frame)
            cb = conc_bool(cv)
            def br(b):
                return self.block(b[0], env, frame, b[1], want)
            if cb is not None:
                return br(th) if cb else (br(el) if el is not None else None)
            if not self.symbolic:
                raise Unsupported("non-concrete condition")
            snap = self.snapshot(env, frame)
            self.pc.append(cv)
            try:
                v1 = br(th)
            finally:
                self.pc.pop()
            s1 = self.snapshot(env, frame)
            self.restore(env, frame, snap)
            self.pc.append(z3.Not(cv))
            try:
                v2 = br(el) if el is not None else None
            finally:
                self.pc.pop()
            s2 = self.snapshot(env, frame)
            self.merge_state(cv, env, frame, s1, s2)
            return self.merge_val(cv, v1, v2)
        if k == "block":
            return self.block(e[1], env, frame, e[2], want)
        if k == "array":
            ety = want[1] if isinstance(want, tuple) and want[0] == "arr" else None
            return [self.ev(x, env, frame, ety) for x in e[1]]
        if k == "repeat":
            ety = want[1] if isinstance(want, tuple) and want[0] == "arr" else None
            n = self.cast_to(self.ev(e[2], env, frame), "usize")
            x = self.ev(e[1], env, frame, ety)
            return [x for _ in range(n)]
        if k == "tuple":
            return [self.ev(x, env, frame) for x in e[1]]
        if k == "struct":
            name = e[1] if e[1] != "Self" else frame["unit"]
            if name not in self.c.units:
                raise Unsupported(f"struct {name}")
            decl = {n: self.ty("".join(t[1] for t in tt)) for n, tt in self.c.units[name]["fields"]}
            f = {}
            for n, x in e[2]:
                v = self.ev(x, env, frame, want=decl.get(n))
                if decl.get(n) in W and isinstance(v, (int, I)):
                    v = self.cast_to(v, decl[n])
                if isinstance(decl.get(n), tuple) and decl[n][0] == "arr" and isinstance(v, list) and decl[n][1] in W:
                    v = [self.cast_to(q, decl[n][1]) if isinstance(q, (int, I)) else q for q in v]
                f[n] = list(v) if isinstance(v, list) else v
            return Obj(name, f)
        if k == "closure":
            return ("closure", e[1], e[2], env)
        if k == "macro":
            raise Unsupported(f"macro {e[1]}!")
        if k == "range":
            raise Unsupported("range value")
        raise Unsupported(f"expression {k}")

    def apply_closure(self, c, args, frame):
        _, params, body, cenv = c
        env = list(cenv) + [dict(zip(params, args))]
        return self.ev(body, env, frame)

    def mcall(self, e, env, frame, want):
        _, recv, name, args = e
        # iterator chains
        if name in ("all", "any", "fold") and recv[0] == "mcall" and recv[2] in ("iter", "into_iter"):
            base = self.ev(recv[1], env, frame)
            if isinstance(base, Obj) and list(base.f) == ["0"]:
                base = base.f["0"]
            if not isinstance(base, list):
                raise Unsupported("iterator over non-array")
            if name == "fold":
                acc = self.ev(args[0], env, frame)
                c = self.ev(args[1], env, frame)
                for x in base:
                    acc = self.apply_closure(c, [acc, x], frame)
                return acc
            c = self.ev(args[0], env, frame)
            parts = [self.apply_closure(c, [x], frame) for x in base]
            cs = [conc_bool(p) for p in parts]
            if all(x is not None for x in cs):
                return all(cs) if name == "all" else any(cs)
            ps = [p if not isinstance(p, bool) else z3.BoolVal(p) for p in parts]
            return simp(z3.And(*ps) if name == "all" else z3.Or(*ps))
        r = self.ev_(recv, env, frame, want if name.startswith("wrapping") or name.startswith("rotate") else None)
        if isinstance(r, Obj):
            if name in self.c.units[r.unit]["methods"]:
                return self.call_method(r, name, [self.ev(a, env, frame) for a in args])
            if name == "clone":
                return r.copy()
            if name == "fill_bytes":
                dst = self.ev(args[0], env, frame)
                out = fill_bytes_via_next(self, r, len(dst)) if "fill_bytes" not in self.c.units[r.unit]["methods"] else None
                raise Unsupported("fill_bytes on object")
            raise Unsupported(f"method {r.unit}::{name}")
        if name in ("wrapping_add", "wrapping_sub", "wrapping_mul"):
            b = self.ev(args[0], env, frame, r.ty if isinstance(r, I) else want)
            return self.binop({"wrapping_add": "+", "wrapping_sub": "-", "wrapping_mul": "*"}[name], r, b, want)
        if name in ("rotate_left", "rotate_right"):
            if isinstance(r, int):
                raise Unsupported("rotate of untyped literal")
            n = conc(self.ev(args[0], env, frame))
            if n is None:
                raise Unsupported("rotate by symbolic amount")
            f = z3.RotateLeft if name == "rotate_left" else z3.RotateRight
            return I(simp(f(r.e, n % r.w)), r.ty)
        if name == "to_le_bytes":
            return [I(simp(z3.Extract(8 * i + 7, 8 * i, r.e)), "u8") for i in range(r.w // 8)]
        if name in ("as_mut", "as_ref", "clone", "iter", "to_vec", "into"):
            return r
        if name == "len":
            return len(r)
        if name == "wrapping_neg":
            return I(simp(-r.e), r.ty)
        if name == "abs" or name == "wrapping_abs":
            return I(simp(z3.If(r.e < 0, -r.e, r.e)), r.ty)
        if name == "is_empty":
            return len(r) == 0
        raise Unsupported(f"method .{name}()")

    def call(self, e, env, frame, want):
        f, args = e[1], e[2]
        if f[0] != "path":
            raise Unsupported("call of non-path")
        segs = f[1]
        name, full = segs[-1], "::".join(segs)
        if name in ("w", "Wrapping") and len(args) == 1:
            return self.ev(args[0], env, frame, want)
        if full in ("u32::from_le_bytes", "u64::from_le_bytes"):
            bs = self.ev(args[0], env, frame)
            n = 4 if segs[0] == "u32" else 8
            bs = [self.cast_to(b, "u8") for b in bs]
            return I(simp(z3.Concat(*[b.e for b in reversed(bs[:n])])), segs[0])
        if len(segs) == 2 and segs[0] in W and name == "from":
            return self.cast_to(self.ev(args[0], env, frame), segs[0])
        if name in ("read_u32_into", "read_u64_into"):
            src = self.ev(args[0], env, frame)
            dst = self.ev(args[1], env, frame)
            n = 4 if name == "read_u32_into" else 8
            ty = "u32" if n == 4 else "u64"
            src = [self.cast_to(b, "u8") for b in src]
            if len(src) < n * len(dst):
                raise Unsupported("read_into: source too short (the real code would panic)")
            for i in range(len(dst)):
                dst[i] = I(simp(z3.Concat(*[b.e for b in reversed(src[n * i:n * i + n])])), ty)
            return None
        if name == "next_u64_via_u32":
            o = self.ev(args[0], env, frame)
            x = self.call_method(o, "next_u32", [])
            y = self.call_method(o, "next_u32", [])
            return I(simp((z3.ZeroExt(32, y.e) << 32) | z3.ZeroExt(32, x.e)), "u64")
        if name == "fill_bytes_via_next":
            o = self.ev(args[0], env, frame)
            dst = self.ev(args[1], env, frame)
            out = fill_bytes_via_next(self, o, len(dst))
            dst[:] = out
            return None
        unit = frame["unit"]
        tgt = None
        if len(segs) >= 2 and segs[-2] in ("Self",):
            tgt = unit
        elif len(segs) >= 2 and segs[-2] in self.c.units:
            tgt = segs[-2]
        if tgt is not None:
            avals = [self.ev(a, env, frame) for a in args]
            if name in self.c.units[tgt]["methods"]:
                return self.call_assoc(tgt, name, avals)
            if name == "from_rng":      # rand_core default: seed = default(); rng.fill_bytes(seed); from_seed(seed)
                n = self.seed_len(tgt)
                rng = avals[0]
                seed = fill_bytes_obj(self, rng, n)
                return self.call_assoc(tgt, "from_seed", [seed])
            if name == "seed_from_u64" :
                raise Unsupported("default seed_from_u64 (PCG32)")
            raise Unsupported(f"function {tgt}::{name}")
        if len(segs) == 1 and self.look(env, "fn:" + name) is not None:
            fn = self.look(env, "fn:" + name)["fn:" + name]
            avals = [self.ev(a, env, frame) for a in args]
            env2 = [{}]
            for p, a in zip(fn.params, avals):
                env2[0][p[0]] = self.bind(a, "".join(t[1] for t in p[1]))
            fr2 = dict(self=None, unit=unit, ret=("".join(t[1] for t in fn.ret) if fn.ret else None), checked=frame.get("checked", True))
            return self.run_body(self.body(("nested", id(fn)), fn, self.c.macros), env2, fr2)
        if name in self.c.fns and (len(segs) == 1 or segs[0] in ("crate", "self", "super", "common")):
            return self.call_free(name, [self.ev(a, env, frame) for a in args], unit)
        raise Unsupported(f"call of {full}")

    def seed_len(self, unit):
        return self.c.seed_lens[unit]

def fill_bytes_obj(it, obj, n):
    if "fill_bytes" in it.c.units[obj.unit]["methods"]:
        buf = [lit(0, "u8") for _ in range(n)]
        it.call_method(obj, "fill_bytes", [buf])
        return buf
    return fill_bytes_via_next(it, obj, n)

def fill_bytes_via_next(it, obj, n):
    """rand_core::impls::fill_bytes_via_next"""
    out = []
    left = n
    while left >= 8:
        w = it.call_method(obj, "next_u64", [])
        out += [I(simp(z3.Extract(8 * i + 7, 8 * i, w.e)), "u8") for i in range(8)]
        left -= 8
    if left > 4:
        w = it.call_method(obj, "next_u64", [])
        out += [I(simp(z3.Extract(8 * i + 7, 8 * i, w.e)), "u8") for i in range(left)]
    elif left > 0:
        w = it.call_method(obj, "next_u32", [])
        out += [I(simp(z3.Extract(8 * i + 7, 8 * i, w.e)), "u8") for i in range(left)]
    return out
