#!/opt/veriftools/pyvenv/bin/python
"""symexec.py — a second, independent semantics of the translated Rust subset: an interpreter over z3 bit-vector
terms.  With concrete inputs it is an ordinary interpreter (concrete integers are python ints, no solver involved); with
symbolic inputs it yields one term per output, so two versions of a function can be compared by the solver.

Used by the checks (through `tools/srcdiff.py`) to search for a *failing input* when the proved tie (exttie.py) no
longer checks: the current source of a function is compared with the pinned source for which the correspondence
theorems were proved.  `sat` gives a concrete state / seed on which the code's behaviour changed (replayed on the real
crates and on the Lean model by the caller); `unsat` shows the rewrite is behaviour-preserving (an SMT result, not a
Lean theorem: it is reported as such); loops whose bounds depend on symbolic data are outside the fragment.

Values
  I          an integer of a Rust type (`u8 … u128`, `i8 … i128`, `usize`/`isize` = 64 bit, and `w:<ty>` for
             `Wrapping<ty>`, whose plain operators wrap): a python int when concrete, a z3 bit-vector otherwise
  int        an integer literal whose type is not known yet
  list       a tuple or a small array;  BigArr  an array of more than SMALL elements: python values at concrete
             indices, a z3 array (BitVec 64 -> BitVec w) once it is read or written at a symbolic index
  View       a reference to (a range of) an array: `&a`, `&mut a[2..6]`, `split_at_mut`, a `&[T]` parameter
  Ref        a `&mut` reference to a scalar place (local, field, array element)
  Obj        a struct value
Two flags are collected per run: `abort` — the real code panics in every build on this input (failed `assert!`, index out
of range, slice length mismatch, division by zero) and `panic` — it panics in a debug build (`abort`, failed
`debug_assert!`, overflow of plain `+ - *`, negation, over-long shifts of non-`Wrapping` integers).

Compositional mode (`Interp.abstract`): a call of a function that was already shown equivalent in the two versions can be
replaced by an application of uninterpreted functions (one per output, the same symbols in both versions) to ALL inputs of
the callee (every argument, every element / the whole array term of array arguments, every field of `self`, the values
behind `&mut` parameters); the outputs are the return value, the values behind `&mut` parameters, `self` after the call
and the callee's two flags.  Soundness: let F be the callee's (common) input/output function.  The comparison proves
caller_cur[G] = caller_pin[G] for every interpretation G of the symbols, in particular for G = F, and caller_x[F] is the
real semantics of caller_x because callee_cur = callee_pin = F was established on fully symbolic inputs of exactly the
shapes recorded (`Interp.abstract[key]` holds the verified input signatures; a call whose signature is not covered is
executed normally).  A `sat` answer under abstraction proves nothing and is reported as `unknown`.

Run with the tooling interpreter (python3-vt): it needs z3."""
import sys, os, json, re, time
sys.path.insert(0, os.path.dirname(os.path.abspath(__file__)))
import z3
import rsfront
from rsfront import Unsupported

_BASE = {"u8": 8, "u16": 16, "u32": 32, "u64": 64, "u128": 128, "i8": 8, "i16": 16, "i32": 32, "i64": 64, "i128": 128,
         "usize": 64, "isize": 64}
W = dict(_BASE)
W.update({"w:" + k: v for k, v in _BASE.items()})
SMALL = 32            # arrays up to this length are python lists
SIMP_LIMIT = 400      # terms whose (tree) size estimate exceeds this are not simplified operation by operation
BIG = 1 << 30

def tystr(toks):
    """type tokens as text (a blank only between two words: `&mut w32`, `impl RngCore`)"""
    out, prev = [], None
    for t in toks:
        if prev is not None and prev[0] in ("id", "num", "life") and t[0] in ("id", "num"):
            out.append(" ")
        out.append(t[1]); prev = t
    return "".join(out)

def base_ty(ty):
    return ty[2:] if ty.startswith("w:") else ty

def is_wr(ty):
    return ty.startswith("w:")

class I:
    """integer value: python int (concrete) or z3 bit-vector, + Rust type; `n` estimates the term size, `ub` is an upper
    bound of the unsigned value (None: unknown)"""
    __slots__ = ("_e", "v", "ty", "n", "ub")
    def __init__(self, e, ty, n=None, ub=None):
        self.ty = ty
        if isinstance(e, int):
            self.v, self._e, self.n, self.ub = e & ((1 << W[ty]) - 1), None, 1, None
        else:
            self._e = e
            if z3.is_bv_value(e):
                self.v, self.n, self.ub = e.as_long(), 1, None
            else:
                self.v, self.n, self.ub = None, (n if n is not None else 16), ub
    @property
    def e(self):
        if self._e is None:
            self._e = z3.BitVecVal(self.v, W[self.ty])
        return self._e
    @property
    def w(self):
        return W[self.ty]
    @property
    def signed(self):
        return base_ty(self.ty).startswith("i")
    def bound(self):
        if self.v is not None:
            return self.v
        return self.ub if self.ub is not None else (1 << W[self.ty]) - 1

def lit(v, ty):
    return I(v, ty)

def simp(e):
    return z3.simplify(e)

def mk(e, ty, *ops, ub=None):
    """a new symbolic integer built from `ops`; simplified while it is small"""
    n = 1
    for o in ops:
        if isinstance(o, I):
            n += o.n
    if n <= SIMP_LIMIT:
        e = z3.simplify(e)
    elif n > BIG:
        n = BIG
    return I(e, ty, n, ub)

def conc(v):
    """python int of a concrete I (else None)"""
    if isinstance(v, bool):
        return None
    if isinstance(v, int):
        return v
    if isinstance(v, I):
        if v.v is not None:
            return v.v
        if v.n <= SIMP_LIMIT:
            s = simp(v._e)
            if z3.is_bv_value(s):
                v.v = s.as_long()
                return v.v
    return None

def dag_small(e, limit=1500):
    """does the term have at most `limit` distinct subterms? (bounded traversal)"""
    seen, stack = set(), [e]
    while stack:
        x = stack.pop()
        i = x.get_id()
        if i in seen:
            continue
        seen.add(i)
        if len(seen) > limit:
            return False
        stack.extend(x.children())
    return True

def conc_bool(b):
    if isinstance(b, bool):
        return b
    if z3.is_true(b):
        return True
    if z3.is_false(b):
        return False
    if not dag_small(b):
        return None                 # a condition over big terms is treated as symbolic (simplifying it would cost too much)
    s = simp(b)
    if z3.is_true(s):
        return True
    if z3.is_false(s):
        return False
    return None

def zbool(b):
    return z3.BoolVal(b) if isinstance(b, bool) else b

def sx(v, w):
    return v - (1 << w) if v >> (w - 1) else v

class Obj:
    def __init__(self, unit, fields):
        self.unit, self.f = unit, fields
    def copy(self):
        return Obj(self.unit, {k: own(v) for k, v in self.f.items()})

class BigArr:
    """array of n elements.  `cache` holds the values known at concrete indices; `bg` is a z3 array term for the rest
    (None while every index ever used was concrete: then `fill` is the value of the unwritten cells).  `root` is `bg` as
    it was after the last write at a symbolic index: every later write at a concrete index is in `cache`, `dirty` are the
    cached cells not yet stored into `bg`."""
    def __init__(self, n, ety=None, fill=None, bg=None):
        self.n, self.ety, self.fill, self.bg, self.root = n, ety, fill, bg, bg
        self.cache, self.dirty = {}, set()
    def copy(self):
        b = BigArr(self.n, self.ety, self.fill, self.bg)
        b.root, b.cache, b.dirty = self.root, dict(self.cache), set(self.dirty)
        return b
    def state(self):
        return (self.ety, self.fill, self.bg, self.root, dict(self.cache), set(self.dirty))
    def set_state(self, s):
        self.ety, self.fill, self.bg, self.root = s[0], s[1], s[2], s[3]
        self.cache, self.dirty = dict(s[4]), set(s[5])
    def norm(self, x):
        if self.ety is None:
            if isinstance(x, I):
                self.ety = x.ty
            return x
        if isinstance(x, bool):
            return x
        if isinstance(x, int):
            return I(x, self.ety)
        if isinstance(x, I) and x.ty != self.ety and W[x.ty] == W[self.ety]:
            y = I(x.v if x.v is not None else x._e, self.ety, x.n, x.ub)
            return y
        return x
    def get(self, i):
        x = self.cache.get(i)
        if x is None:
            if self.bg is None:
                x = self.fill
                if x is None:
                    raise Unsupported("read of an uninitialised array element")
            else:
                x = mk(z3.Select(self.root, z3.BitVecVal(i, 64)), self.ety) if is_plain_array(self.root) else \
                    I(z3.Select(self.root, z3.BitVecVal(i, 64)), self.ety, BIG)
                self.cache[i] = x
                return x
        y = self.norm(x)
        if y is not x:
            self.cache[i] = y
            if self.bg is None or i in self.dirty:
                self.dirty.add(i)
        return y
    def set(self, i, v):
        v = self.norm(v)
        self.cache[i] = v
        self.dirty.add(i)
    def width(self):
        if self.ety is None:
            for x in list(self.cache.values()) + [self.fill]:
                if isinstance(x, I):
                    self.ety = x.ty
                    break
        if self.ety is None:
            raise Unsupported("array of integers of unknown type used with a symbolic index")
        return W[self.ety]
    def term(self):
        w = self.width()
        if self.bg is None:
            f = self.norm(self.fill) if self.fill is not None else I(0, self.ety)
            self.bg = self.root = z3.K(z3.BitVecSort(64), f.e)
            self.dirty = set(self.cache)
        if self.dirty:
            t = self.bg
            for i in sorted(self.dirty):
                x = self.norm(self.cache[i])
                self.cache[i] = x
                t = z3.Store(t, z3.BitVecVal(i, 64), x.e)
            self.bg = t
            self.dirty = set()
        return self.bg
    def get_sym(self, idx):
        return I(z3.Select(self.term(), idx), self.ety, BIG)
    def set_sym(self, idx, v):
        w = self.width()
        v = self.norm(v)
        t = z3.Store(self.term(), idx, v.e)
        self.bg = self.root = t
        self.cache, self.dirty = {}, set()
    def set_term(self, t):
        self.bg = self.root = t
        self.cache, self.dirty = {}, set()

def is_plain_array(t):
    """an array variable or constant array (reads of it simplify to small terms)"""
    return z3.is_const(t) or z3.is_K(t)

class View:
    """reference to elements off … off+n-1 of a list or BigArr"""
    __slots__ = ("base", "off", "n")
    def __init__(self, base, off, n):
        while isinstance(base, View):
            off += base.off
            base = base.base
        self.base, self.off, self.n = base, off, n

class Ref:
    """`&mut` reference to a scalar place: (scope dict | Obj | list | BigArr | View, key)"""
    __slots__ = ("cont", "key")
    def __init__(self, cont, key):
        self.cont, self.key = cont, key

def own(v):
    """an independent copy of an owned value (arrays and structs are values in Rust)"""
    if isinstance(v, list):
        return [own(x) for x in v]
    if isinstance(v, BigArr):
        return v.copy()
    if isinstance(v, Obj):
        return v.copy()
    return v

class Ret(Exception):
    def __init__(self, v):
        self.v = v
class Brk(Exception):
    pass
class Cont(Exception):
    pass

class Crate:
    """all units (struct + methods) and free functions of one crate directory"""
    def __init__(self, repo, crate, files):
        self.units, self.fns, self.macros, self.consts, self.types, self.assoc = {}, {}, {}, {}, {}, {}
        self.files = {}
        parsed = []
        for fn in files:
            p = os.path.join(repo, crate, "src", fn)
            if not os.path.exists(p):
                continue
            f = rsfront.load(p)
            parsed.append(f)
            self.files[fn] = f
            self.macros.update(f.macros)
        for f in parsed:
            for n, (tt, et) in f.consts.items():
                self.consts[n] = (tt, et)
            for n, tt in f.types.items():
                self.types[n] = tystr(tt)
            for n, fn_ in f.fns.items():
                self.fns[n] = fn_
            for sname, fields in f.structs.items():
                self.units.setdefault(sname, dict(fields=fields, methods={}))
            for (trait, ty, fns, consts), itypes in zip(f.impls, f.impl_types):
                u = self.units.setdefault(ty, dict(fields=[], methods={}))
                for k, v in fns.items():
                    if v.body is not None and (k not in u["methods"] or trait is None):
                        u["methods"][k] = v
                for k, v in (itypes or {}).items():
                    self.assoc[(ty, k)] = tystr(v)

MAX_STEPS = 6000000

_BaseParser = rsfront.Parser

class Parser2(_BaseParser):
    """rsfront's parser + `match` over integer / bool literal patterns (alternatives `a | b`, ranges, `_`, a binding), desugared
    into `{ let m = scrutinee; if m == p1 { e1 } else if … else { en } }`; a match without a catch-all arm ends in
    `unreachable!()`.  Installed as rsfront.Parser only while symexec parses a body (the translator never sees it)."""
    _n = [0]
    def parse_stmt(self):
        if self.peek() == "match":
            return ("exprnosemi", self.parse_match())
        return _BaseParser.parse_stmt(self)
    def parse_primary(self, nostruct):
        if self.peek() == "match":
            return self.parse_match()
        return _BaseParser.parse_primary(self, nostruct)
    def parse_match(self):
        self.eat("match")
        scrut = self.parse_expr(nostruct=True)
        if self.peek() != "{":
            raise Unsupported("match: body")
        c = rsfront.match_close(self.t, self.i)
        toks = self.t[self.i + 1:c]
        self.i = c + 1
        Parser2._n[0] += 1
        var = f"__match{Parser2._n[0]}"
        mv = ("path", [var])
        arms, i = [], 0
        while i < len(toks):
            j, depth = i, 0
            while not (toks[j][1] == "=>" and depth == 0):
                if toks[j][0] == "p" and toks[j][1] in rsfront.OPEN:
                    depth += 1
                elif toks[j][0] == "p" and toks[j][1] in (")", "]", "}"):
                    depth -= 1
                j += 1
                if j >= len(toks):
                    raise Unsupported("match: arm")
            pat = toks[i:j]
            k = j + 1
            if toks[k][1] == "{":
                e_end = rsfront.match_close(toks, k)
                body = Parser2(toks[k:e_end + 1], self.macros).parse_expr_all()
                k = e_end + 1
                if k < len(toks) and toks[k][1] == ",":
                    k += 1
            else:
                e, depth = k, 0
                while e < len(toks) and not (toks[e][1] == "," and depth == 0):
                    if toks[e][0] == "p" and toks[e][1] in rsfront.OPEN:
                        depth += 1
                    elif toks[e][0] == "p" and toks[e][1] in (")", "]", "}"):
                        depth -= 1
                    e += 1
                body = Parser2(toks[k:e], self.macros).parse_expr_all()
                k = e + 1
            arms.append((pat, body))
            i = k
        def cond(pat):
            if any(t[1] == "if" for t in pat):
                raise Unsupported("match: guard")
            alts = rsfront.split_top(pat, "|")
            cs = []
            for a in alts:
                txt = [t[1] for t in a]
                if txt == ["_"]:
                    return None, None
                if len(a) == 1 and a[0][0] == "id" and a[0][1] not in ("true", "false") and a[0][1][:1].islower():
                    return None, a[0][1]
                if "..=" in txt or ".." in txt:
                    op = "..=" if "..=" in txt else ".."
                    q = txt.index(op)
                    lo, hi = a[:q], a[q + 1:]
                    if not lo or not hi:
                        raise Unsupported("match: half-open range pattern")
                    lo, hi = Parser2(lo, self.macros).parse_expr_all(), Parser2(hi, self.macros).parse_expr_all()
                    cs.append(("bin", "&&", ("bin", ">=", mv, lo), ("bin", "<=" if op == "..=" else "<", mv, hi)))
                    continue
                if not all(t[0] in ("num", "id") or t[1] in ("-", "::") for t in a):
                    raise Unsupported("match: pattern")
                cs.append(("bin", "==", mv, Parser2(a, self.macros).parse_expr_all()))
            r = cs[0]
            for x in cs[1:]:
                r = ("bin", "||", r, x)
            return r, None
        chain = ([("expr", ("macro", "unreachable", []))], None)
        closed = False
        built = []
        for pat, body in arms:
            c_, bind = cond(pat)
            built.append((c_, bind, body))
        for c_, bind, body in reversed(built):
            blk = ([("let", ("name", bind), False, None, mv)], body) if bind else ([], body)
            if c_ is None:
                chain = blk
            else:
                chain = ([], ("if", c_, blk, chain))
        stmts = [("let", ("name", var), False, None, scrut)] + chain[0]
        return ("block", stmts, chain[1])

def parse_body2(toks, macros):
    old = rsfront.Parser
    rsfront.Parser = Parser2
    assert old is not Parser2 or True
    try:
        return Parser2(toks, macros).parse_block_body()
    finally:
        rsfront.Parser = old

class Interp:
    def __init__(self, crate, symbolic=False, deadline=None):
        self.c, self.symbolic = crate, symbolic
        self.steps = 0
        self.deadline = deadline           # wall-clock limit (time.time() value) of this run
        self.bodies = {}
        self.wrapping_units = set()        # structs in whose methods plain operators never trap (legacy switch; Wrapping is tracked per value)
        self.pc = []                       # path condition (symbolic branches taken)
        self.panics = []                   # conditions under which a debug-profile build panics
        self.aborts = []                   # conditions under which every build panics
        self.abstract = {}                 # (kind, unit, fn) -> [verified input signatures]: calls replaced by uninterpreted functions
        self.abstracted = set()            # which of them were actually used
        self.fresh = 0
        self.branches = []

    @property
    def panic(self):
        cs = self.panics + self.aborts
        return z3.Or(*cs) if cs else z3.BoolVal(False)
    @property
    def abort(self):
        return z3.Or(*self.aborts) if self.aborts else z3.BoolVal(False)

    def _flag(self, lst, cond):
        if isinstance(cond, bool):
            if not cond:
                return
            cond = z3.BoolVal(True)
        c = z3.And(*(self.pc + [cond])) if self.pc else cond
        if lst and lst[-1].eq(c):
            return
        lst.append(c)

    def may_panic(self, cond):
        """record that a debug build panics when `cond` (a z3 Bool / python bool) holds on the current path"""
        self._flag(self.panics, cond)

    def may_abort(self, cond):
        """record that every build panics when `cond` holds on the current path"""
        self._flag(self.aborts, cond)

    def note_branch(self, cond):
        """symbolic branch conditions (with their path condition), for branch-directed concrete tests"""
        if len(self.branches) < 400:
            self.branches.append((list(self.pc), cond))

    def tick(self):
        self.steps += 1
        if self.steps > MAX_STEPS:
            raise Unsupported("step limit")
        if self.deadline is not None and (self.steps & 1023) == 0 and time.time() > self.deadline:
            raise Unsupported("time limit")

    # ------------------------------------------------------------ types
    def ty(self, s):
        s = s.strip()
        while s.startswith("&"):
            s = s[1:].lstrip()
            if s.startswith("'"):
                s = re.sub(r"^'\w+\s*", "", s)
            if s.startswith("mut ") or s.startswith("mut["):
                s = s[3:].lstrip()
        seen = 0
        while s in self.c.types and seen < 8:
            s = self.c.types[s].strip(); seen += 1
        m = re.match(r"^(?:w|Wrapping|core::num::Wrapping|num::Wrapping)<(.+)>$", s)
        if m:
            t = self.ty(m.group(1))
            return "w:" + t if t in _BASE else ("named", s)
        if s in _BASE:
            return s
        m = re.match(r"^\[(.+);(.+)\]$", s)
        if m:
            return ("arr", self.ty(m.group(1)), m.group(2).strip())
        m = re.match(r"^\[(.+)\]$", s)
        if m:
            return ("slice", self.ty(m.group(1)))
        return ("named", s)

    def val(self, v):
        """the value behind a `&mut` scalar reference (auto-deref)"""
        while isinstance(v, Ref):
            v = self.ref_get(v)
        return v

    def cast_to(self, v, ty):
        v = self.val(v)
        if ty not in W:
            return v
        if isinstance(v, bool):
            return I(1 if v else 0, ty)
        if isinstance(v, int):
            return I(v, ty)
        if not isinstance(v, I):
            if z3.is_bool(v):
                return I(z3.If(v, z3.BitVecVal(1, W[ty]), z3.BitVecVal(0, W[ty])), ty, 4, 1)
            return v
        w0, w1 = v.w, W[ty]
        if v.v is not None:
            x = sx(v.v, w0) if v.signed else v.v
            return I(x, ty)
        if w1 == w0:
            return I(v._e, ty, v.n, v.ub)
        if w1 < w0:
            ub = v.ub if (v.ub is not None and v.ub < (1 << w1)) else None
            return mk(z3.Extract(w1 - 1, 0, v._e), ty, v, ub=ub)
        if v.signed:
            return mk(z3.SignExt(w1 - w0, v._e), ty, v)
        return mk(z3.ZeroExt(w1 - w0, v._e), ty, v, ub=v.bound())

    def pyint(self, v, what="value"):
        c = conc(self.val(v))
        if c is None:
            raise Unsupported(f"symbolic {what}")
        return c

    def coerce2(self, a, b):
        if isinstance(a, int) and not isinstance(a, bool) and isinstance(b, I):
            return I(a, b.ty), b
        if isinstance(b, int) and not isinstance(b, bool) and isinstance(a, I):
            return a, I(b, a.ty)
        return a, b

    # ------------------------------------------------------------ arrays, views, references
    def a_len(self, c):
        if isinstance(c, list):
            return len(c)
        if isinstance(c, (BigArr, View)):
            return c.n
        raise Unsupported("length of a non-array")

    def is_arr(self, c):
        return isinstance(c, (list, BigArr, View))

    def a_get(self, c, idx):
        """element `idx` (python int or I) of list / BigArr / View, with the bounds check of the real code"""
        idx = self.val(idx)
        n = self.a_len(c)
        off = 0
        if isinstance(c, View):
            off, c = c.off, c.base
        i = conc(idx)
        if i is not None:
            if isinstance(idx, I) and idx.signed:
                raise Unsupported("signed index")
            if i >= n:
                self.may_abort(True)
                return I(0, self.ety_of(c) or "u32")
            return c[off + i] if isinstance(c, list) else c.get(off + i)
        if not isinstance(idx, I):
            raise Unsupported("index of unknown kind")
        if not self.symbolic:
            raise Unsupported("non-concrete index in concrete mode")
        e = idx.e if idx.w == 64 else z3.ZeroExt(64 - idx.w, idx.e)
        if idx.bound() >= n:
            self.may_abort(z3.UGE(e, z3.BitVecVal(n, 64)))
        if off:
            e = e + z3.BitVecVal(off, 64)
        if isinstance(c, list):
            hi = min(n, idx.bound() + 1)
            xs = [self.val(c[off + k]) for k in range(hi)]
            if not xs:
                return I(0, "u32")
            r = xs[-1]
            for k in range(hi - 2, -1, -1):
                r = self.merge_val(e == z3.BitVecVal(off + k, 64), xs[k], r)
            return r
        return c.get_sym(e)

    def a_set(self, c, idx, v):
        idx = self.val(idx)
        v = self.val(v)
        n = self.a_len(c)
        off = 0
        if isinstance(c, View):
            off, c = c.off, c.base
        i = conc(idx)
        if i is not None:
            if i >= n:
                self.may_abort(True)
                return
            if isinstance(c, list):
                old = c[off + i]
                if isinstance(old, I) and isinstance(v, (int, I)) and not isinstance(v, bool):
                    v = self.cast_to(v, old.ty)
                c[off + i] = own(v)
            else:
                c.set(off + i, v)
            return
        if not isinstance(idx, I) or not self.symbolic:
            raise Unsupported("non-concrete index")
        e = idx.e if idx.w == 64 else z3.ZeroExt(64 - idx.w, idx.e)
        if idx.bound() >= n:
            self.may_abort(z3.UGE(e, z3.BitVecVal(n, 64)))
        if off:
            e = e + z3.BitVecVal(off, 64)
        if isinstance(c, list):
            for k in range(min(n, idx.bound() + 1)):
                old = c[off + k]
                vv = self.cast_to(v, old.ty) if isinstance(old, I) and isinstance(v, (int, I)) else v
                c[off + k] = self.merge_val(e == z3.BitVecVal(off + k, 64), vv, old)
            return
        if isinstance(v, int):
            v = c.norm(v)
        if not isinstance(v, I):
            raise Unsupported("non-integer stored at a symbolic index")
        c.set_sym(e, v)

    def ety_of(self, c):
        if isinstance(c, View):
            c = c.base
        if isinstance(c, BigArr):
            return c.ety
        for x in c:
            if isinstance(x, I):
                return x.ty
        return None

    def elems(self, c):
        """python list of the elements (concrete positions) of an array value"""
        if isinstance(c, list):
            return list(c)
        n = self.a_len(c)
        if n > 1 << 16:
            raise Unsupported("array too large")
        return [self.a_get(c, i) for i in range(n)]

    def new_array(self, xs):
        """owned array value from a python list of elements"""
        if len(xs) <= SMALL:
            return list(xs)
        b = BigArr(len(xs))
        for i, x in enumerate(xs):
            b.set(i, x)
        return b

    def materialise(self, v):
        """owned copy of what a View / array denotes"""
        if isinstance(v, View):
            if isinstance(v.base, BigArr) and v.off == 0 and v.n == v.base.n:
                return v.base.copy()
            if isinstance(v.base, list) and v.off == 0 and v.n == len(v.base):
                return own(v.base)
            return self.new_array([own(x) for x in self.elems(v)])
        return own(v)

    def retype(self, v, ety):
        if ety not in W:
            return v
        if isinstance(v, list):
            for i, x in enumerate(v):
                if isinstance(x, (int, I)) and not isinstance(x, bool):
                    if isinstance(x, int) or (x.ty != ety and W[x.ty] == W[ety]):
                        v[i] = self.cast_to(x, ety)
        elif isinstance(v, BigArr):
            if v.ety is None or W[v.ety] == W[ety]:
                v.ety = ety
        return v

    def ref_get(self, r):
        c, k = r.cont, r.key
        if isinstance(c, dict):
            return c[k]
        if isinstance(c, Obj):
            return c.f[k]
        return self.a_get(c, k)

    def ref_set(self, r, v):
        c, k = r.cont, r.key
        v = self.val(v)
        if isinstance(c, dict) or isinstance(c, Obj):
            d = c if isinstance(c, dict) else c.f
            old = d.get(k)
            if isinstance(old, I) and isinstance(v, (int, I)) and not isinstance(v, bool):
                v = self.cast_to(v, old.ty)
            d[k] = own(v)
            return
        self.a_set(c, k, v)

    def place_ref(self, e, env, frame, mut=True):
        """the reference `&e` / `&mut e`: a View for arrays, a Ref for scalars (only when mutable), the object for structs"""
        k = e[0]
        if k == "paren":
            return self.place_ref(e[1], env, frame, mut)
        if k == "deref":
            return self.ev_(e[1], env, frame)
        if k == "ref":
            return self.place_ref(e[2], env, frame, mut and e[1])
        if k == "path" and len(e[1]) == 1 and e[1][0] != "self":
            sc = self.look(env, e[1][0])
            if sc is not None:
                v = sc[e[1][0]]
                if isinstance(v, (list, BigArr)):
                    return View(v, 0, self.a_len(v))
                if isinstance(v, (View, Ref, Obj)) or not mut:
                    return v
                if isinstance(v, (int, I, bool)) or z3.is_expr(v):
                    return Ref(sc, e[1][0])
                return v
        if k == "field":
            b = self.val(self.place_ref(e[1], env, frame, mut)) if e[1][0] not in ("call", "mcall") else self.ev_(e[1], env, frame)
            if isinstance(b, Obj) and e[2] in b.f:
                v = b.f[e[2]]
                if isinstance(v, (list, BigArr)):
                    return View(v, 0, self.a_len(v))
                if isinstance(v, (View, Ref, Obj)) or not mut:
                    return v
                return Ref(b, e[2])
        if k == "index":
            c = self.place_ref(e[1], env, frame, mut)
            if self.is_arr(c):
                if e[2][0] == "range":
                    return self.ev_(e, env, frame)
                idx = self.val(self.ev(e[2], env, frame))
                i = conc(idx)
                if i is not None and i < self.a_len(c):
                    x = self.a_get(c, i)
                    if isinstance(x, (list, BigArr)):
                        return View(x, 0, self.a_len(x))
                    if isinstance(x, (View, Obj)) or not mut:
                        return x
                    return Ref(c, i)
                if mut:
                    raise Unsupported("mutable reference to an element at a symbolic index")
                return self.a_get(c, idx)
        v = self.ev_(e, env, frame)
        if isinstance(v, (list, BigArr)):
            return View(v, 0, self.a_len(v))
        return v

    # ------------------------------------------------------------ functions
    def body(self, key, fn, macros):
        if key not in self.bodies:
            self.bodies[key] = parse_body2(fn.body, macros)
        return self.bodies[key]

    @staticmethod
    def tystr(toks):
        return tystr(toks)

    def invoke(self, kind, unit, name, fn, obj, args, outer_scope=None, checked=None):
        """call `fn` (a method of `obj`, an associated / free / nested function) with already evaluated arguments"""
        self.tick()
        params = [p for p in fn.params if p[0] != "self"]
        if len(params) != len(args):
            raise Unsupported(f"call of {name} with {len(args)} arguments")
        bound = [self.bind(a, self.tystr(p[1])) for p, a in zip(params, args)]
        key = (kind, unit, name)
        if key in self.abstract:
            r = self.abstract_call(key, fn, obj, params, bound)
            if r is not NotImplemented:
                return r
        env = [outer_scope if outer_scope is not None else {}, {}]
        for p, a in zip(params, bound):
            env[1][p[0]] = a
        if checked is None:
            checked = unit not in self.wrapping_units
        frame = dict(self=obj, unit=unit, ret=(self.tystr(fn.ret) if fn.ret else None), checked=checked)
        bkey = (unit, name) if kind != "n" else ("nested", id(fn))
        return self.run_body(self.body(bkey, fn, self.c.macros), env, frame)

    def call_method(self, obj, name, args):
        u = self.c.units[obj.unit]
        fn = u["methods"].get(name)
        if fn is None:
            raise Unsupported(f"method {obj.unit}::{name}")
        return self.invoke("m", obj.unit, name, fn, obj, args)

    def call_assoc(self, unit, name, args):
        u = self.c.units[unit]
        fn = u["methods"].get(name)
        if fn is None:
            raise Unsupported(f"function {unit}::{name}")
        if any(p[0] == "self" for p in fn.params):
            if not args or not isinstance(self.val(args[0]), Obj):
                raise Unsupported(f"{unit}::{name} called without a receiver")
            return self.invoke("m", unit, name, fn, self.val(args[0]), args[1:])
        return self.invoke("m", unit, name, fn, None, args)

    def call_free(self, name, args, unit):
        return self.invoke("f", "::", name, self.c.fns[name], None, args, checked=True)

    def call_nested(self, fn, args, env, frame):
        """a nested `fn` item: sees the items (consts, fns) of the enclosing blocks, no locals"""
        outer = {}
        for sc in env:
            for k, v in sc.items():
                if k.startswith("fn:") or k.startswith("const:"):
                    outer[k] = v
        return self.invoke("n", frame["unit"], fn.name, fn, None, args, outer_scope=outer, checked=frame.get("checked", True))

    def bind(self, v, tys):
        tys = tys.strip()
        if tys.startswith("&"):
            if isinstance(v, (list, BigArr)):
                return View(v, 0, self.a_len(v))
            if isinstance(v, Ref):
                # an integer variable whose type was not known yet gets the type the callee declares for it
                t = self.ty(tys)
                x = self.ref_get(v)
                if t in W and isinstance(x, int) and not isinstance(x, bool):
                    self.ref_set(v, I(x, t))
            return v                      # references: Views / Refs / objects are passed on as they are
        t = self.ty(tys)
        v = self.val(v)
        if t in W and isinstance(v, (int, I)) and not isinstance(v, bool):
            return self.cast_to(v, t)
        if self.is_arr(v):
            v = self.materialise(v)       # an array passed by value: the callee works on its own copy
            if isinstance(t, tuple) and t[0] == "arr":
                self.retype(v, t[1])
        return v

    def run_body(self, body, env, frame):
        stmts, tail = body
        rt = frame["ret"]
        want = self.ty(rt) if rt else None
        try:
            r = self.block(stmts, env, frame, tail, want if want in W else None)
        except Ret as e:
            r = e.v
        if want in W and isinstance(self.val(r), (int, I)) and not isinstance(r, bool):
            r = self.cast_to(r, want)
        if isinstance(r, (list, BigArr)) and not (rt or "").lstrip().startswith("&"):
            r = own(r)
        return r

    # ------------------------------------------------------------ uninterpreted callees
    def flat_in(self, v, terms, sig):
        """append the z3 terms of an input value and its signature entries; False if the value cannot be an argument of
        an uninterpreted function"""
        v = self.val(v)
        if isinstance(v, bool):
            terms.append(z3.BoolVal(v)); sig.append(("bool",)); return True
        if isinstance(v, int):
            return False
        if isinstance(v, I):
            terms.append(v.e); sig.append(("bv", v.ty, v.v)); return True
        if z3.is_expr(v) and z3.is_bool(v):
            terms.append(v); sig.append(("bool",)); return True
        if isinstance(v, Obj):
            sig.append(("obj", v.unit, tuple(sorted(v.f))))
            return all(self.flat_in(v.f[k], terms, sig) for k in sorted(v.f))
        if isinstance(v, View) and isinstance(v.base, BigArr) and v.off == 0 and v.n == v.base.n:
            v = v.base
        if isinstance(v, BigArr):
            try:
                terms.append(v.term())
            except Unsupported:
                return False
            sig.append(("arr", v.n, v.ety)); return True
        if isinstance(v, (list, View)):
            n = self.a_len(v)
            if n > 4 * SMALL:
                return False
            sig.append(("list", n))
            return all(self.flat_in(x, terms, sig) for x in self.elems(v))
        return False

    @staticmethod
    def sig_covers(verified, sig):
        if len(verified) != len(sig):
            return False
        for a, b in zip(verified, sig):
            if a[0] != b[0]:
                return False
            if a[0] == "bv":
                if a[1] != b[1] or (a[2] is not None and a[2] != b[2]):
                    return False
            elif a != b:
                return False
        return True

    def uf(self, name, args, sort):
        f = z3.Function(name, *([a.sort() for a in args] + [sort]))
        return f(*args)

    def fresh_out(self, tag, v, args, k):
        """overwrite the mutable value `v` (View / Ref / Obj) by the outputs tag!k… of the callee; returns the next k"""
        if isinstance(v, Ref):
            old = self.val(v)
            if not isinstance(old, I):
                raise Unsupported("abstract call: reference to a non-integer")
            self.ref_set(v, I(self.uf(f"{tag}!{k}", args, z3.BitVecSort(old.w)), old.ty, BIG))
            return k + 1
        if isinstance(v, Obj):
            for fname in sorted(v.f):
                x = v.f[fname]
                if isinstance(x, I):
                    v.f[fname] = I(self.uf(f"{tag}!{k}", args, z3.BitVecSort(x.w)), x.ty, BIG); k += 1
                elif isinstance(x, (list, BigArr)):
                    k = self.fresh_out(tag, View(x, 0, self.a_len(x)), args, k)
                elif isinstance(x, Obj):
                    k = self.fresh_out(tag, x, args, k)
                elif isinstance(x, bool) or (z3.is_expr(x) and z3.is_bool(x)):
                    v.f[fname] = self.uf(f"{tag}!{k}", args, z3.BoolSort()); k += 1
                else:
                    raise Unsupported("abstract call: field of unknown kind")
            return k
        if isinstance(v, View):
            if isinstance(v.base, BigArr) and v.off == 0 and v.n == v.base.n:
                w = v.base.width()
                v.base.set_term(self.uf(f"{tag}!{k}", args, z3.ArraySort(z3.BitVecSort(64), z3.BitVecSort(w))))
                return k + 1
            for i in range(v.n):
                old = self.a_get(v, i)
                if not isinstance(old, I):
                    raise Unsupported("abstract call: array of non-integers")
                self.a_set(v, i, I(self.uf(f"{tag}!{k}", args, z3.BitVecSort(old.w)), old.ty, BIG)); k += 1
            return k
        raise Unsupported("abstract call: output of unknown kind")

    def sym_of_type(self, t, tag, args, k, unit):
        """a value of declared type `t` made of callee outputs tag!k…; returns (value, next k) or raises Unsupported"""
        if t in W:
            return I(self.uf(f"{tag}!{k}", args, z3.BitVecSort(W[t])), t, BIG), k + 1
        if t == ("named", "bool"):
            return self.uf(f"{tag}!{k}", args, z3.BoolSort()), k + 1
        if isinstance(t, tuple) and t[0] == "arr" and t[1] in W:
            n = self.pyint(self.ev(rsfront.Parser(rsfront.lex(t[2]), self.c.macros).parse_expr_all(), [{}], dict(self=None, unit=unit, ret=None)), "array length")
            if n <= SMALL:
                xs = []
                for _ in range(n):
                    xs.append(I(self.uf(f"{tag}!{k}", args, z3.BitVecSort(W[t[1]])), t[1], BIG)); k += 1
                return xs, k
            b = BigArr(n, t[1], None, self.uf(f"{tag}!{k}", args, z3.ArraySort(z3.BitVecSort(64), z3.BitVecSort(W[t[1]]))))
            return b, k + 1
        if isinstance(t, tuple) and t[0] == "named":
            name = unit if t[1] == "Self" else t[1]
            if name in self.c.units and self.c.units[name]["fields"]:
                f = {}
                for fname, tt in sorted(self.c.units[name]["fields"]):
                    f[fname], k = self.sym_of_type(self.ty(self.tystr(tt)), tag, args, k, name)
                return Obj(name, f), k
        raise Unsupported(f"abstract call: result type {t}")

    def abstract_call(self, key, fn, obj, params, bound):
        """replace the call by uninterpreted functions of all its inputs (see the module docstring); NotImplemented when this
        call is not covered by a verified signature"""
        terms, sig = [], []
        kind, unit, name = key
        selfkind = next((p[1] for p in fn.params if p[0] == "self"), None)
        ok = True
        if selfkind is not None:
            ok = obj is not None and self.flat_in(obj, terms, sig)
        for a in bound:
            ok = ok and self.flat_in(a, terms, sig)
        if not ok or not any(self.sig_covers(v, sig) for v in self.abstract[key]):
            return NotImplemented
        rt = self.ty(self.tystr(fn.ret)) if fn.ret else None
        if rt == ("named", "()"):
            rt = None
        tag = f"{unit}.{name}"
        snap = self.snapshot([{"#a": list(bound)}], dict(self=obj))
        try:
            k = 0
            if selfkind == "mut":
                k = self.fresh_out(tag, obj, terms, k)
            for p, a in zip(params, bound):
                pt = self.tystr(p[1]).strip()
                if pt.startswith("&") and re.match(r"^&\s*('\w+\s*)?mut\b", pt):
                    k = self.fresh_out(tag, a, terms, k)
            r = None
            if rt is not None:
                r, k = self.sym_of_type(rt, tag, terms, k, unit)
        except Unsupported:
            self.restore(snap)
            return NotImplemented
        self.may_panic(self.uf(f"{tag}!panic", terms, z3.BoolSort()))
        self.may_abort(self.uf(f"{tag}!abort", terms, z3.BoolSort()))
        self.abstracted.add(tag)
        return r

    # ------------------------------------------------------------ statements
    def look(self, env, n):
        for sc in reversed(env):
            if n in sc:
                return sc
        return None

    def block(self, stmts, env, frame, tail=None, want=None):
        """runs the statements in a fresh scope and evaluates the tail expression (if any) inside it"""
        env.append({})
        try:
            for i, s in enumerate(stmts):
                self.tick()
                k = s[0]
                if k == "expr" and s[1][0] == "if":
                    self.if_stmt(s[1], stmts[i + 1:], tail, env, frame)
                    continue
                self.stmt(s, env, frame)
            return self.ev(tail, env, frame, want) if tail is not None else None
        finally:
            env.pop()

    # state snapshots keep object identities: the CONTENT of every mutable object reachable from the frame is recorded and
    # written back in place, so Views / Refs (also those held by callers) stay valid across the two runs of a symbolic branch
    def snapshot(self, env, frame):
        objs = {}
        stack = list(env)
        if frame.get("self") is not None:
            stack.append(frame["self"])
        while stack:
            x = stack.pop()
            if isinstance(x, View):
                x = x.base
            elif isinstance(x, Ref):
                x = x.cont
                if isinstance(x, View):
                    x = x.base
            if isinstance(x, dict):
                if id(x) in objs:
                    continue
                objs[id(x)] = (x, dict(x))
                stack.extend(v for k, v in x.items() if not (isinstance(k, str) and k.startswith("fn:")))
            elif isinstance(x, list):
                if id(x) in objs:
                    continue
                objs[id(x)] = (x, list(x))
                stack.extend(v for v in x if isinstance(v, (list, Obj, BigArr, View, Ref)))
            elif isinstance(x, Obj):
                if id(x) in objs:
                    continue
                objs[id(x)] = (x, dict(x.f))
                stack.extend(x.f.values())
            elif isinstance(x, BigArr):
                if id(x) in objs:
                    continue
                objs[id(x)] = (x, x.state())
            elif isinstance(x, tuple) and x and x[0] == "closure":
                stack.extend(x[3])
        return objs

    @staticmethod
    def put_content(x, content):
        if isinstance(x, dict):
            x.clear(); x.update(content)
        elif isinstance(x, list):
            x[:] = content
        elif isinstance(x, Obj):
            x.f = dict(content)
        else:
            x.set_state(content)

    def restore(self, snap, *_):
        for x, content in snap.values():
            self.put_content(x, content)

    def merge_val(self, c, a, b, sa=None, sb=None):
        """If(c, a, b); the contents of containers are taken from the snapshots sa / sb (object id -> (object, content)) of the
        two sides where they have an entry, from the live object otherwise"""
        if a is b and (sa is None or not isinstance(a, (list, Obj, BigArr)) or id(a) not in sa or id(a) not in sb):
            return a
        if isinstance(a, Ref) or isinstance(b, Ref):
            if isinstance(a, Ref) and isinstance(b, Ref):
                if a.cont is b.cont and a.key == b.key:
                    return a
                raise Unsupported("merge of different references")
            a, b = self.val(a), self.val(b)
        if isinstance(a, View) and isinstance(b, View):
            if a.base is b.base and a.off == b.off and a.n == b.n:
                return a
            raise Unsupported("merge of different slices")
        def cont(x, snap):
            if snap is not None and id(x) in snap:
                return snap[id(x)][1]
            return x if isinstance(x, list) else (x.f if isinstance(x, Obj) else x.state())
        if isinstance(a, list) and isinstance(b, list):
            ca, cb = cont(a, sa), cont(b, sb)
            if len(ca) == len(cb):
                return [self.merge_val(c, x, y, sa, sb) for x, y in zip(ca, cb)]
        if isinstance(a, Obj) and isinstance(b, Obj) and a.unit == b.unit:
            ca, cb = cont(a, sa), cont(b, sb)
            return Obj(a.unit, {k: self.merge_val(c, ca[k], cb[k], sa, sb) for k in ca})
        if isinstance(a, BigArr) and isinstance(b, BigArr) and a.n == b.n:
            r = BigArr(a.n)
            r.set_state(self.merge_arr(c, cont(a, sa), cont(b, sb), a.n))
            return r
        if isinstance(a, bool) and isinstance(b, bool) and a == b:
            return a
        if isinstance(a, int) and isinstance(b, int) and not isinstance(a, bool) and not isinstance(b, bool):
            if a == b:
                return a
            raise Unsupported("merge of different untyped integers")
        a, b = self.coerce2(a, b)
        if isinstance(a, I) and isinstance(b, I):
            if a.v is not None and a.v == b.v and a.ty == b.ty:
                return a
            if a.w != b.w:
                raise Unsupported("merge of integers of different width")
            if a._e is not None and b._e is not None and a._e.eq(b._e):
                return a
            ub = max(a.bound(), b.bound())
            return I(z3.If(c, a.e, b.e), a.ty, min(BIG, a.n + b.n + 1), ub)
        if isinstance(a, bool) or isinstance(b, bool) or (z3.is_expr(a) and z3.is_bool(a)):
            if (isinstance(a, bool) or z3.is_expr(a)) and (isinstance(b, bool) or z3.is_expr(b)):
                return z3.If(c, zbool(a), zbool(b))
        if a is None and b is None:
            return None
        if isinstance(a, tuple) and isinstance(b, tuple) and a and b and a[0] == b[0] == "result" and len(a) == len(b) == 2:
            return ("result", self.merge_val(c, a[1], b[1], sa, sb))
        if isinstance(a, tuple) and isinstance(b, tuple) and a == b:
            return a
        raise Unsupported("merge of incompatible values")

    def merge_arr(self, c, s1, s2, n):
        """state of one BigArr from its states after the two branches"""
        if s1[2] is s2[2] and s1[3] is s2[3] and s1[1] is s2[1] and s1[4].keys() == s2[4].keys() and all(s1[4][i] is s2[4][i] for i in s1[4]):
            return s1
        if s1[2] is None and s2[2] is None:
            # both still index-concrete: merge cell by cell
            cache = {}
            for i in set(s1[4]) | set(s2[4]):
                x, y = s1[4].get(i, s1[1]), s2[4].get(i, s2[1])
                cache[i] = x if x is y else self.merge_val(c, x, y)
            fill = s1[1] if s1[1] is s2[1] else self.merge_val(c, s1[1], s2[1])
            return (s1[0] or s2[0], fill, None, None, cache, set(cache))
        t = []
        for s in (s1, s2):
            b = BigArr(n, s[0] or s1[0] or s2[0])
            b.set_state(s)
            t.append((b.term(), b))
        if t[0][0].eq(t[1][0]):
            return t[0][1].state()
        bg = z3.If(c, t[0][0], t[1][0])
        cache = {}
        for i in set(t[0][1].cache) & set(t[1][1].cache):
            x, y = t[0][1].cache[i], t[1][1].cache[i]
            cache[i] = x if x is y else self.merge_val(c, x, y)
        return (t[0][1].ety, None, bg, bg, cache, set())

    def merge_state(self, c, s0, s1, s2):
        """every object that existed before the branch (s0) gets the merge of its contents after the then-run (s1) and after
        the else-run (s2); computed for all objects first, then written"""
        out = []
        for oid, (x, c0) in s0.items():
            a = s1[oid][1] if oid in s1 else c0
            b = s2[oid][1] if oid in s2 else c0
            if isinstance(x, dict):
                m = {}
                for k in a:
                    if k in b:
                        m[k] = self.merge_val(c, a[k], b[k], s1, s2) if (a[k] is not b[k] or not isinstance(a[k], (list, Obj, BigArr)) or id(a[k]) not in s0) else a[k]
            elif isinstance(x, list):
                if len(a) != len(b):
                    raise Unsupported("merge of lists of different length")
                m = [self.merge_val(c, p, q, s1, s2) if (p is not q or not isinstance(p, (list, Obj, BigArr)) or id(p) not in s0) else p for p, q in zip(a, b)]
            elif isinstance(x, Obj):
                m = {k: (self.merge_val(c, a[k], b[k], s1, s2) if (a[k] is not b[k] or not isinstance(a[k], (list, Obj, BigArr)) or id(a[k]) not in s0) else a[k])
                     for k in a if k in b}
            else:
                m = self.merge_arr(c, a, b, x.n)
            out.append((x, m))
        for x, m in out:
            self.put_content(x, m)

    def run_branch(self, branch, cond, env, frame):
        """one side of a symbolic `if`: ('go'|'ret', value), with the path condition extended"""
        self.pc.append(cond)
        try:
            if branch is not None:
                self.block(branch[0], env, frame, branch[1])
        except Ret as r:
            return ("ret", r.v)
        except (Brk, Cont):
            raise Unsupported("break / continue under a symbolic condition")
        finally:
            self.pc.pop()
        return ("go", None)

    def if_stmt(self, e, rest, tail, env, frame):
        """`if` in statement position; a symbolic early return finishes the rest of the enclosing block on the other path"""
        _, c, th, el = e
        cv = self.ev(c, env, frame)
        cb = conc_bool(cv)
        if cb is not None:
            if cb:
                self.block(th[0], env, frame, th[1])
            elif el is not None:
                self.block(el[0], env, frame, el[1])
            return False
        if not self.symbolic:
            raise Unsupported("non-concrete condition in concrete mode")
        self.note_branch(cv)
        s0 = self.snapshot(env, frame)
        r1 = self.run_branch(th, cv, env, frame)
        s1 = self.snapshot(env, frame)
        self.restore(s0)
        r2 = self.run_branch(el, z3.Not(cv), env, frame)
        s2 = self.snapshot(env, frame)
        if r1[0] == "go" and r2[0] == "go":
            self.merge_state(cv, s0, s1, s2)
            return False
        # at least one branch returns: finish the rest of the block on the other path(s), then merge the results
        def finish(r, s, cond):
            if r[0] == "ret":
                return r[1], s
            self.restore(s0); self.restore(s)
            self.pc.append(cond)
            try:
                for i, st in enumerate(rest):
                    if st[0] == "expr" and st[1][0] == "if":
                        self.if_stmt(st[1], rest[i + 1:], tail, env, frame)
                        continue
                    self.stmt(st, env, frame)
                if tail is None:
                    v = None
                else:
                    v = self.ev(tail, env, frame)
                return v, self.snapshot(env, frame)
            except Ret as rr:
                return rr.v, self.snapshot(env, frame)
            except (Brk, Cont):
                raise Unsupported("break / continue under a symbolic condition")
            finally:
                self.pc.pop()
        v1, f1 = finish(r1, s1, cv)
        v2, f2 = finish(r2, s2, z3.Not(cv))
        v = self.merge_val(cv, v1, v2, f1, f2)
        self.merge_state(cv, s0, f1, f2)
        raise Ret(v)

    def stmt(self, s, env, frame):
        k = s[0]
        if k == "let":
            _, pat, mut, ty, init = s
            t = self.ty(ty) if ty else None
            v = self.ev(init, env, frame, want=t) if init is not None else None
            if t in W and isinstance(self.val(v), (int, I)) and not isinstance(v, bool):
                v = self.cast_to(v, t)
            if pat[0] == "name":
                if isinstance(v, (list, BigArr)) and init is not None and init[0] not in ("array", "repeat", "call", "mcall", "struct", "tuple"):
                    v = own(v)                      # arrays are values: `let b = a;` copies (or moves) the array
                elif isinstance(v, View) and init is not None and init[0] == "deref":
                    v = self.materialise(v)
                if isinstance(t, tuple) and t[0] == "arr" and isinstance(v, (list, BigArr)):
                    self.retype(v, t[1])
                env[-1][pat[1]] = v
            else:
                if not isinstance(v, (list, tuple)) or len(v) != len(pat[1]):
                    raise Unsupported("tuple pattern")
                for n, x in zip(pat[1], v):
                    env[-1][n] = x
            return
        if k == "const":
            v = self.ev(s[3], env, frame, want=self.ty(s[2]))
            t = self.ty(s[2])
            if t in W and isinstance(v, (int, I)) and not isinstance(v, bool):
                v = self.cast_to(v, t)
            env[-1][s[1]] = v
            env[-1]["const:" + s[1]] = v
            return
        if k == "assign":
            _, place, op, rhs = s
            if op is None:
                cur = None
                try:
                    if place[0] in ("path", "field", "deref") or (place[0] == "index" and place[2][0] != "range"):
                        cur = self.val(self.ev_(place, env, frame))
                except Unsupported:
                    pass
                want = cur.ty if isinstance(cur, I) else None
                v = self.ev(rhs, env, frame, want=want)
                if isinstance(cur, I) and isinstance(v, int) and not isinstance(v, bool):
                    v = I(v, cur.ty)
                if isinstance(v, (list, BigArr)) and rhs[0] in ("path", "field", "index", "deref", "paren"):
                    v = own(v)
                elif isinstance(v, View) and rhs[0] == "deref":
                    v = self.materialise(v)
            else:
                if op in ("<<", ">>"):
                    r = self.ev(rhs, env, frame)
                else:
                    r = self.ev_(rhs, env, frame)
                cur = self.val(self.ev_(place, env, frame))
                if isinstance(r, tuple) and r and r[0] == "defer":
                    r = self.undefer(r, cur if isinstance(cur, I) else None)
                v = self.binop(op, cur, r, None, chk=frame.get("checked", True))
            self.store(place, v, env, frame)
            return
        if k == "expr":
            e = s[1]
            if e[0] == "macro":
                if e[1] in ("trace", "debug", "info", "warn", "error"):
                    return
                if e[1] in ("debug_assert", "assert", "debug_assert_eq", "assert_eq", "debug_assert_ne", "assert_ne"):
                    parts = rsfront.split_top(e[2])
                    if e[1].endswith("assert"):
                        c = self.ev(rsfront.Parser(parts[0], self.c.macros).parse_expr_all(), env, frame)
                    else:
                        a = self.val(self.ev_(rsfront.Parser(parts[0], self.c.macros).parse_expr_all(), env, frame))
                        b = self.val(self.ev_(rsfront.Parser(parts[1], self.c.macros).parse_expr_all(), env, frame, a.ty if isinstance(a, I) else None))
                        c = self.binop("==" if e[1].endswith("_eq") else "!=", a, b, None)
                    cb = conc_bool(c)
                    bad = (not cb) if cb is not None else z3.Not(c)
                    if e[1].startswith("debug_"):
                        self.may_panic(bad)
                    else:
                        self.may_abort(bad)
                    return
                if e[1] in ("panic", "unreachable", "unimplemented", "todo"):
                    self.may_abort(True)
                    return
                raise Unsupported(f"macro {e[1]}!")
            self.ev(e, env, frame)
            return
        if k == "for":
            _, var, it, body = s
            seq = self.iter_of(it, env, frame)
            if seq is None:
                v = self.ev(it, env, frame)
                if not self.is_arr(v):
                    raise Unsupported("for over this iterable")
                seq = Seq(self.a_len(v), (lambda c: (lambda i: self.a_get(c, i)))(v))
            for x in seq.gen():
                env.append({})
                self.bind_pattern(var, x, env[-1])
                try:
                    self.block(body[0], env, frame, body[1])
                except Brk:
                    env.pop()
                    break
                except Cont:
                    pass
                env.pop()
            return
        if k in ("while", "loop"):
            n = 0
            while True:
                n += 1
                if n > 200000:
                    raise Unsupported("loop bound")
                if k == "while":
                    cb = conc_bool(self.ev(s[1], env, frame))
                    if cb is None:
                        raise Unsupported("loop condition depends on symbolic data")
                    if not cb:
                        break
                try:
                    b = s[2] if k == "while" else s[1]
                    self.block(b[0], env, frame, b[1])
                except Brk:
                    break
                except Cont:
                    continue
            return
        if k == "fn":
            env[-1]["fn:" + s[1].name] = s[1]
            return
        if k == "return":
            raise Ret(self.ev(s[1], env, frame) if s[1] is not None else None)
        if k == "break":
            raise Brk()
        if k == "continue":
            raise Cont()
        raise Unsupported(f"statement {k}")

    def bind_pattern(self, var, x, scope):
        if var[0] == "name":
            scope[var[1]] = x
            return
        names = var[1]
        def flat(v):
            if isinstance(v, list) and len(names) != len(v):
                out = []
                for y in v:
                    out += flat(y) if isinstance(y, list) else [y]
                return out
            return list(v) if isinstance(v, list) else [v]
        xs = flat(x)
        if len(xs) != len(names):
            raise Unsupported("loop pattern")
        for n, y in zip(names, xs):
            scope[n] = y

    # ------------------------------------------------------------ iterators (lazy, as in Rust)
    def iter_of(self, e, env, frame):
        """iterator object for a range / iterator-adaptor chain, None if `e` is not one"""
        while e[0] == "paren":
            e = e[1]
        if e[0] == "range":
            lo = self.val(self.ev(e[1], env, frame)) if e[1] is not None else 0
            if e[2] is None:
                raise Unsupported("unbounded range")
            hi = self.val(self.ev(e[2], env, frame))
            ty = lo.ty if isinstance(lo, I) else (hi.ty if isinstance(hi, I) else None)
            if self.symbolic and isinstance(lo, I) and isinstance(hi, I) and lo.v is None and lo.w == hi.w and not lo.signed and lo.n + hi.n <= 4 * SIMP_LIMIT:
                d = simp(hi.e - lo.e)
                if z3.is_bv_value(d) and lo.bound() + d.as_long() + 1 < (1 << lo.w):
                    # hi = lo + d without wrap-around: d (+1) iterations lo, lo + 1, …
                    cnt = d.as_long() + (1 if e[3] else 0)
                    return Seq(cnt, lambda i: mk(lo.e + z3.BitVecVal(i, lo.w), lo.ty, lo, ub=lo.bound() + i) if i else lo)
            l, h = self.pyint(lo, "range bound"), self.pyint(hi, "range bound") + (1 if e[3] else 0)
            return Seq(max(0, h - l), (lambda i: I(l + i, ty)) if ty else (lambda i: l + i))
        if e[0] == "ref":
            c = self.ev_(e, env, frame)
            if isinstance(c, View):
                return self.seq_of(c, e[1])
            return None
        if e[0] != "mcall":
            return None
        _, recv, name, args = e
        if name in ("iter", "iter_mut", "into_iter"):
            inner = self.iter_of(recv, env, frame) if recv[0] in ("paren", "range", "mcall") else None
            if inner is not None:
                return inner
            c = self.ev_(recv, env, frame)
            if isinstance(c, Obj) and list(c.f) == ["0"]:
                c = c.f["0"]
            if not self.is_arr(c):
                return None
            return self.seq_of(c, name == "iter_mut")
        if name in ("chunks_exact", "chunks_exact_mut", "chunks", "chunks_mut", "windows"):
            c = self.ev_(recv, env, frame)
            if not self.is_arr(c):
                return None
            k = self.pyint(self.ev(args[0], env, frame), "chunk size")
            n = self.a_len(c)
            if k == 0:
                self.may_abort(True)
                return Seq(0, lambda i: None)
            if name == "windows":
                return Seq(max(0, n - k + 1), lambda i: View(c, i, k))
            if name.startswith("chunks_exact"):
                return Seq(n // k, lambda i: View(c, i * k, k))
            return Seq((n + k - 1) // k, lambda i: View(c, i * k, min(k, n - i * k)))
        if name in ("map", "zip", "enumerate", "rev", "step_by", "take", "skip", "copied", "cloned"):
            src = self.iter_of(recv, env, frame)
            if src is None:
                return None
            if name in ("copied", "cloned"):
                return MapIt(src, self.val)
            if name == "map":
                f = self.ev(args[0], env, frame)
                return MapIt(src, lambda x: self.apply_closure(f, [x], frame))
            if name == "enumerate":
                return EnumIt(src)
            if name == "rev":
                return src.rev()
            if name == "zip":
                o = self.iter_of(args[0], env, frame)
                if o is None:
                    c = self.ev_(args[0], env, frame)
                    if not self.is_arr(c):
                        raise Unsupported("zip with a non-iterator")
                    o = self.seq_of(c, False)
                return ZipIt(src, o)
            k = self.pyint(self.ev(args[0], env, frame), name)
            if name == "take":
                return src.take(k)
            if name == "skip":
                return src.skip(k)
            if k == 0:
                self.may_abort(True); k = 1
            return src.step(k)
        return None

    def seq_of(self, c, mut):
        if mut:
            def fetch(i):
                x = self.a_get(c, i)
                if isinstance(x, (list, BigArr)):
                    return View(x, 0, self.a_len(x))
                return x if isinstance(x, (Obj, View)) else Ref(c, i)
            return Seq(self.a_len(c), fetch)
        return Seq(self.a_len(c), lambda i: self.a_get(c, i))

    # ------------------------------------------------------------ places
    def store(self, place, v, env, frame):
        k = place[0]
        if k == "paren":
            return self.store(place[1], v, env, frame)
        if k == "deref":
            x = self.ev_(place[1], env, frame)
            if isinstance(x, Ref):
                return self.ref_set(x, v)
            if isinstance(x, View):
                src = self.val(v)
                if not self.is_arr(src) or self.a_len(src) != x.n:
                    raise Unsupported("assignment through a slice reference")
                xs = self.elems(src)
                for i, y in enumerate(xs):
                    self.a_set(x, i, y)
                return
            return self.store(place[1], v, env, frame)
        v = self.val(v) if not isinstance(v, (View, Ref)) else v
        if k == "path" and len(place[1]) == 1:
            n = place[1][0]
            if n == "self":
                frame["self"].f = self.val(v).f
                return
            sc = self.look(env, n)
            if sc is None:
                raise Unsupported(f"assignment to unknown {n}")
            old = sc[n]
            if isinstance(old, Ref) and not isinstance(v, Ref):
                raise Unsupported("assignment to a reference variable")
            if isinstance(old, I) and isinstance(v, (int, I)) and not isinstance(v, bool):
                v = self.cast_to(v, old.ty)
            if isinstance(old, (list, BigArr)) and isinstance(v, (list, BigArr)):
                et = self.ety_of(old)
                if et:
                    self.retype(v, et)
            sc[n] = v
            return
        if k == "field":
            base = self.val(self.place_ref(place[1], env, frame))
            if isinstance(base, Obj):
                old = base.f.get(place[2])
                if isinstance(old, I) and isinstance(v, (int, I)) and not isinstance(v, bool):
                    v = self.cast_to(v, old.ty)
                if isinstance(old, (list, BigArr)) and isinstance(v, (list, BigArr)):
                    et = self.ety_of(old)
                    if et:
                        self.retype(v, et)
                base.f[place[2]] = v
                return
            if place[2] == "0":
                cur = self.val(self.ev_(place[1], env, frame))
                if isinstance(cur, I) and isinstance(v, (int, I)):
                    v = self.cast_to(v, cur.ty)
                return self.store(place[1], v, env, frame)
            raise Unsupported("field store")
        if k == "index":
            base = self.place_ref(place[1], env, frame)
            if isinstance(base, Obj) and list(base.f) == ["0"]:
                base = base.f["0"]
            if not self.is_arr(base):
                raise Unsupported("index store into non-array")
            if place[2][0] == "range":
                raise Unsupported("assignment to a range of an array")
            self.a_set(base, self.ev(place[2], env, frame), v)
            return
        raise Unsupported(f"store to {k}")

    # ------------------------------------------------------------ expressions
    def overflow(self, op, a, b):
        """condition (python bool or z3) under which the plain operator traps in a debug build"""
        sg, w = a.signed, a.w
        if a.v is not None and b.v is not None:
            x, y = (sx(a.v, w), sx(b.v, w)) if sg else (a.v, b.v)
            r = x + y if op == "+" else (x - y if op == "-" else x * y)
            return not (-(1 << (w - 1)) <= r < (1 << (w - 1))) if sg else not (0 <= r < (1 << w))
        if not sg:
            if op == "+" and a.bound() + b.bound() < (1 << w):
                return False
            if op == "*" and a.bound() * b.bound() < (1 << w):
                return False
        x, y = a.e, b.e
        if op == "+":
            okc = z3.And(z3.BVAddNoOverflow(x, y, sg), z3.BVAddNoUnderflow(x, y)) if sg else z3.BVAddNoOverflow(x, y, False)
        elif op == "-":
            okc = z3.And(z3.BVSubNoOverflow(x, y), z3.BVSubNoUnderflow(x, y, sg)) if sg else z3.BVSubNoUnderflow(x, y, False)
        else:
            okc = z3.And(z3.BVMulNoOverflow(x, y, sg), z3.BVMulNoUnderflow(x, y)) if sg else z3.BVMulNoOverflow(x, y, False)
        if a.n + b.n <= SIMP_LIMIT:
            cb = conc_bool(okc)
            if cb is not None:
                return not cb
        return z3.Not(okc)

    def shift(self, op, a, b):
        """`a << b` / `a >> b`: the amount is taken modulo the width (Rust's release semantics and the semantics of
        Wrapping); a plain integer shifted by at least its width panics in a debug build"""
        w = a.w
        sh = conc(b)
        if sh is not None:
            if isinstance(b, I) and b.signed and sh >> (b.w - 1):
                sh = w          # negative amount
            if sh >= w:
                if not is_wr(a.ty):
                    self.may_panic(True)
                sh %= w
            if a.v is not None:
                if op == "<<":
                    return I(a.v << sh, a.ty)
                return I((sx(a.v, w) >> sh) if a.signed else (a.v >> sh), a.ty)
            se = z3.BitVecVal(sh, w)
            if op == "<<":
                return mk(a.e << se, a.ty, a)
            if a.signed:
                return mk(a.e >> se, a.ty, a)
            return mk(z3.LShR(a.e, se), a.ty, a, ub=a.bound() >> sh)
        if not isinstance(b, I):
            raise Unsupported("shift amount")
        be = b.e
        if not is_wr(a.ty) and b.bound() >= w:
            self.may_panic(z3.UGE(be, z3.BitVecVal(w, b.w)))
        se = z3.ZeroExt(w - b.w, be) if b.w < w else (z3.Extract(w - 1, 0, be) if b.w > w else be)
        se = se & z3.BitVecVal(w - 1, w)
        if op == "<<":
            return mk(a.e << se, a.ty, a, b)
        return mk((a.e >> se) if a.signed else z3.LShR(a.e, se), a.ty, a, b, ub=None if a.signed else a.bound())

    def binop(self, op, a, b, want, chk=False):
        a, b = self.val(a), self.val(b)
        if op in ("&&", "||"):
            ca, cb = conc_bool(a), conc_bool(b)
            if ca is not None and cb is not None:
                return (ca and cb) if op == "&&" else (ca or cb)
            return z3.And(zbool(a), zbool(b)) if op == "&&" else z3.Or(zbool(a), zbool(b))
        if isinstance(a, View) or isinstance(b, View) or isinstance(a, BigArr) or isinstance(b, BigArr):
            if op in ("==", "!=") and self.is_arr(a) and self.is_arr(b):
                if self.a_len(a) != self.a_len(b):
                    return op == "!="
                a, b = self.elems(a), self.elems(b)
            else:
                raise Unsupported("array operands")
        if isinstance(a, list) or isinstance(b, list):
            if op in ("==", "!=") and isinstance(a, list) and isinstance(b, list) and len(a) == len(b):
                parts = [self.binop("==", x, y, None) for x, y in zip(a, b)]
                if all(isinstance(p, bool) for p in parts):
                    r = all(parts)
                    return r if op == "==" else not r
                r = simp(z3.And(*[zbool(p) for p in parts]))
                return r if op == "==" else simp(z3.Not(r))
            raise Unsupported("array operands")
        if op in ("<<", ">>"):
            if isinstance(a, int) and not isinstance(a, bool) and want in W:
                a = I(a, want)
            if isinstance(a, int) and not isinstance(a, bool):
                sh = conc(b)
                if sh is None:
                    raise Unsupported("shift of an untyped literal by a symbolic amount")
                return ("defer", a, op, sh)
            if not isinstance(a, I):
                raise Unsupported("shift of a non-integer")
            return self.shift(op, a, b)
        a, b = self.undefer(a, b), self.undefer(b, a)
        a, b = self.coerce2(a, b)
        if isinstance(a, int) and isinstance(b, int) and not isinstance(a, bool) and not isinstance(b, bool):
            if want in W:
                a, b = I(a, want), I(b, want)
            else:
                import operator
                if op in ("/", "%") and b == 0:
                    self.may_abort(True)
                    return 0
                f = {"+": operator.add, "-": operator.sub, "*": operator.mul, "/": lambda x, y: abs(x) // abs(y) * (1 if (x < 0) == (y < 0) else -1),
                     "%": lambda x, y: abs(x) % abs(y) * (1 if x >= 0 else -1),
                     "^": operator.xor, "|": operator.or_, "&": operator.and_, "==": operator.eq, "!=": operator.ne,
                     "<": operator.lt, ">": operator.gt, "<=": operator.le, ">=": operator.ge}[op]
                r = f(a, b)
                if op in ("+", "-", "*") and not (0 <= r < (1 << 31)):
                    # the literal's type is not known here: whether this wraps / traps depends on what Rust infers
                    raise Unsupported("arithmetic on untyped integers whose result depends on the inferred type")
                return r
        if not isinstance(a, I) or not isinstance(b, I):
            if op in ("==", "!="):
                if isinstance(a, bool) and isinstance(b, bool):
                    return (a == b) if op == "==" else (a != b)
                if (isinstance(a, bool) or z3.is_expr(a)) and (isinstance(b, bool) or z3.is_expr(b)):
                    r = zbool(a) == zbool(b)
                    return simp(r) if op == "==" else simp(z3.Not(r))
            if op in ("&", "|", "^") and (isinstance(a, bool) or (z3.is_expr(a) and z3.is_bool(a))) and (isinstance(b, bool) or (z3.is_expr(b) and z3.is_bool(b))):
                if isinstance(a, bool) and isinstance(b, bool):
                    return {"&": a and b, "|": a or b, "^": a != b}[op]
                return simp({"&": z3.And, "|": z3.Or, "^": z3.Xor}[op](zbool(a), zbool(b)))
            raise Unsupported(f"operands of {op}")
        if a.w != b.w:
            raise Unsupported(f"width mismatch in {op}")
        if base_ty(a.ty) != base_ty(b.ty) and a.signed != b.signed:
            raise Unsupported(f"signedness mismatch in {op}")
        w, sg = a.w, a.signed
        rty = a.ty if is_wr(a.ty) or not is_wr(b.ty) else b.ty
        cmp = op in ("==", "!=", "<", ">", "<=", ">=")
        if chk and op in ("+", "-", "*") and not is_wr(rty):
            self.may_panic(self.overflow(op, a, b))
        if op in ("/", "%"):
            if b.v is not None:
                if b.v == 0:
                    self.may_abort(True)
                    return I(0, rty)
            else:
                self.may_abort(b.e == z3.BitVecVal(0, w))
            if sg and not is_wr(rty):
                # MIN / -1 overflows (panics in every build)
                if a.v is not None and b.v is not None:
                    if a.v == 1 << (w - 1) and b.v == (1 << w) - 1:
                        self.may_abort(True)
                else:
                    self.may_abort(z3.And(a.e == z3.BitVecVal(1 << (w - 1), w), b.e == z3.BitVecVal((1 << w) - 1, w)))
        if a.v is not None and b.v is not None:
            x, y = (sx(a.v, w), sx(b.v, w)) if sg else (a.v, b.v)
            if cmp:
                return {"==": x == y, "!=": x != y, "<": x < y, ">": x > y, "<=": x <= y, ">=": x >= y}[op]
            if op == "/":
                r = abs(x) // abs(y) * (1 if (x < 0) == (y < 0) else -1)
            elif op == "%":
                r = abs(x) % abs(y) * (1 if x >= 0 else -1)
            else:
                r = {"^": lambda: x ^ y, "|": lambda: x | y, "&": lambda: x & y, "+": lambda: x + y, "-": lambda: x - y, "*": lambda: x * y}[op]()
            return I(r, rty)
        x, y = a.e, b.e
        if cmp:
            if op == "==":
                r = x == y
            elif op == "!=":
                r = x != y
            elif sg:
                r = {"<": x < y, ">": x > y, "<=": x <= y, ">=": x >= y}[op]
            else:
                if op == "<" and a.bound() < b.v if b.v is not None else False:
                    return True
                r = {"<": z3.ULT(x, y), ">": z3.UGT(x, y), "<=": z3.ULE(x, y), ">=": z3.UGE(x, y)}[op]
            return simp(r) if a.n + b.n <= SIMP_LIMIT else r
        ub = None
        if not sg:
            if op == "&":
                ub = min(a.bound(), b.bound())
            elif op == "%" and b.v is not None:
                ub = b.v - 1
            elif op == "/" :
                ub = a.bound()
            elif op in ("|", "^"):
                ub = (1 << max(a.bound().bit_length(), b.bound().bit_length())) - 1
            elif op == "+" and a.bound() + b.bound() < (1 << w):
                ub = a.bound() + b.bound()
            elif op == "*" and a.bound() * b.bound() < (1 << w):
                ub = a.bound() * b.bound()
        r = {"^": lambda: x ^ y, "|": lambda: x | y, "&": lambda: x & y, "+": lambda: x + y, "-": lambda: x - y,
             "*": lambda: x * y,
             "/": lambda: (x / y) if sg else z3.UDiv(x, y),
             "%": lambda: z3.SRem(x, y) if sg else z3.URem(x, y)}[op]()
        return mk(r, rty, a, b, ub=ub)

    def undefer(self, v, other):
        if isinstance(v, tuple) and v and v[0] == "defer":
            _, l, op, sh = v
            ty = other.ty if isinstance(other, I) else None
            if ty is None:
                r = (l << sh) if op == "<<" else (l >> sh)
                return r
            return self.binop(op, I(l, ty), sh, None)
        return v

    def ev(self, e, env, frame, want=None):
        v = self.ev_(e, env, frame, want)
        if isinstance(v, tuple) and v and v[0] == "defer":
            v = self.binop(v[2], I(v[1], want), v[3], None) if want in W else self.undefer(v, None)
        if want in W and isinstance(v, int) and not isinstance(v, bool):
            v = I(v, want)
        return v

    def const_value(self, n, frame):
        tt, et = self.c.consts[n]
        ty = self.ty(self.tystr(tt))
        v = self.ev(rsfront.Parser(et, self.c.macros).parse_expr_all(), [{}], dict(self=None, unit=frame.get("unit"), ret=None), want=ty if ty in W else (ty if isinstance(ty, tuple) and ty[0] == "arr" else None))
        if ty in W and isinstance(v, (int, I)) and not isinstance(v, bool):
            v = self.cast_to(v, ty)
        if isinstance(ty, tuple) and ty[0] == "arr" and isinstance(v, (list, BigArr)):
            self.retype(v, ty[1])
        return v

    def ev_(self, e, env, frame, want=None):
        self.tick()
        k = e[0]
        if k == "lit":
            if e[2] in W:
                return I(e[1], e[2])
            return e[1]
        if k == "bool":
            return e[1]
        if k == "paren":
            return self.ev(e[1], env, frame, want)
        if k == "ref":
            return self.place_ref(e[2], env, frame, e[1])
        if k == "deref":
            v = self.ev(e[1], env, frame, want)
            if isinstance(v, Ref):
                return self.ref_get(v)
            return v
        if k == "path":
            segs = e[1]
            if len(segs) == 1:
                n = segs[0]
                if n == "self":
                    return frame["self"]
                sc = self.look(env, n)
                if sc is not None:
                    return sc[n]
                sc = self.look(env, "const:" + n)
                if sc is not None:
                    return sc["const:" + n]
                if n in self.c.consts:
                    return self.const_value(n, frame)
                if n in ("w", "Wrapping"):
                    return ("builtin", "w")          # the tuple-struct constructor used as a function value: `.map(w)`
                raise Unsupported(f"unknown name {n}")
            if segs[0] in _BASE and segs[1] in ("MAX", "MIN", "BITS"):
                ty = segs[0]
                w = W[ty]
                sg = ty.startswith("i")
                val = {"MAX": ((1 << (w - 1)) - 1) if sg else (1 << w) - 1, "MIN": -(1 << (w - 1)) if sg else 0, "BITS": w}[segs[1]]
                if segs[1] == "BITS":
                    return I(val, "u32")
                return I(val, ty)
            if segs[-1] in self.c.consts:
                return self.ev_(("path", [segs[-1]]), env, frame, want)
            if segs[0] == "Self" and len(segs) == 2:
                raise Unsupported(f"associated item Self::{segs[1]}")
            raise Unsupported(f"path {'::'.join(segs)}")
        if k == "field":
            b = self.val(self.ev(e[1], env, frame))
            if isinstance(b, Obj):
                if e[2] not in b.f:
                    raise Unsupported(f"field {e[2]}")
                return b.f[e[2]]
            if e[2] == "0":
                if isinstance(b, I) and is_wr(b.ty):
                    return I(b.v if b.v is not None else b._e, base_ty(b.ty), b.n, b.ub)
                return b
            if isinstance(b, list) and e[2].isdigit() and int(e[2]) < len(b):
                return b[int(e[2])]
            raise Unsupported(f"field .{e[2]}")
        if k == "index":
            b = self.val(self.ev(e[1], env, frame))
            if isinstance(b, Obj) and list(b.f) == ["0"]:
                b = b.f["0"]
            if not self.is_arr(b):
                raise Unsupported("index into non-array")
            if e[2][0] == "range":
                n = self.a_len(b)
                lo = self.pyint(self.ev(e[2][1], env, frame), "slice bound") if e[2][1] is not None else 0
                hi = (self.pyint(self.ev(e[2][2], env, frame), "slice bound") + (1 if e[2][3] else 0)) if e[2][2] is not None else n
                if lo > hi or hi > n:
                    self.may_abort(True)
                    lo, hi = 0, 0
                return View(b, lo, hi - lo)
            return self.a_get(b, self.ev(e[2], env, frame))
        if k == "cast":
            v = self.ev(e[1], env, frame)
            v = self.undefer(v, None) if isinstance(v, tuple) else v
            t = self.ty(e[2])
            if t == ("named", "bool"):
                return v
            if t not in W:
                raise Unsupported(f"cast to {e[2]}")
            return self.cast_to(v, t)
        if k == "un":
            v = self.val(self.ev(e[2], env, frame, want))
            if e[1] == "!":
                if isinstance(v, bool):
                    return not v
                if isinstance(v, int):
                    if want in W:
                        return I(~v, want)
                    raise Unsupported("bitwise not of an untyped integer")
                if isinstance(v, I):
                    if v.v is not None:
                        return I(~v.v, v.ty)
                    return mk(~v.e, v.ty, v)
                return simp(z3.Not(v))
            if isinstance(v, int):
                return -v
            if not isinstance(v, I):
                raise Unsupported("negation of a non-integer")
            if v.signed and not is_wr(v.ty) and frame.get("checked", True):
                m = 1 << (v.w - 1)
                self.may_panic((v.v == m) if v.v is not None else (v.e == z3.BitVecVal(m, v.w)))
            if v.v is not None:
                return I(-v.v, v.ty)
            return mk(-v.e, v.ty, v)
        if k == "bin":
            op = e[1]
            cmp = op in ("==", "!=", "<", ">", "<=", ">=")
            if op == "&&":
                a = self.val(self.ev(e[2], env, frame))
                ca = conc_bool(a)
                if ca is False:
                    return False
                if ca is None and self.symbolic:
                    self.note_branch(zbool(a))
                    if self.writes(e[3]):
                        raise Unsupported("`&&` with a symbolic left operand and a right operand with side effects")
                    self.pc.append(zbool(a))    # the right operand is evaluated (and can trap) only on this path
                    try:
                        return self.binop(op, a, self.ev(e[3], env, frame), None)
                    finally:
                        self.pc.pop()
                return self.binop(op, a, self.ev(e[3], env, frame), None)
            if op == "||":
                a = self.val(self.ev(e[2], env, frame))
                ca = conc_bool(a)
                if ca is True:
                    return True
                if ca is None and self.symbolic:
                    self.note_branch(zbool(a))
                    if self.writes(e[3]):
                        raise Unsupported("`||` with a symbolic left operand and a right operand with side effects")
                    self.pc.append(z3.Not(zbool(a)))    # the right operand is evaluated (and can trap) only on this path
                    try:
                        return self.binop(op, a, self.ev(e[3], env, frame), None)
                    finally:
                        self.pc.pop()
                return self.binop(op, a, self.ev(e[3], env, frame), None)
            a = self.val(self.ev_(e[2], env, frame, None if cmp else want))
            b = self.val(self.ev_(e[3], env, frame, (a.ty if isinstance(a, I) else (None if cmp else want)) if op not in ("<<", ">>") else None))
            if cmp and isinstance(a, int) and not isinstance(a, bool) and isinstance(b, I) is False and isinstance(b, tuple):
                b = self.undefer(b, None)
            return self.binop(op, a, b, None if cmp else want, chk=frame.get("checked", True))
        if k == "mcall":
            return self.mcall(e, env, frame, want)
        if k == "call":
            return self.call(e, env, frame, want)
        if k == "if":
            _, c, th, el = e
            cv = self.ev(c, env, frame)
            cb = conc_bool(cv)
            def br(b):
                return self.block(b[0], env, frame, b[1], want)
            if cb is not None:
                return br(th) if cb else (br(el) if el is not None else None)
            if not self.symbolic:
                raise Unsupported("non-concrete condition")
            self.note_branch(cv)
            s0 = self.snapshot(env, frame)
            def side(b, cond):
                self.pc.append(cond)
                try:
                    return br(b) if b is not None else None
                except (Ret, Brk, Cont):
                    raise Unsupported("return / break inside a symbolic `if` expression")
                finally:
                    self.pc.pop()
            v1 = side(th, cv)
            s1 = self.snapshot(env, frame)
            self.restore(s0)
            v2 = side(el, z3.Not(cv))
            s2 = self.snapshot(env, frame)
            v = self.merge_val(cv, v1, v2, s1, s2)
            self.merge_state(cv, s0, s1, s2)
            return v
        if k == "block":
            return self.block(e[1], env, frame, e[2], want)
        if k == "array":
            ety = want[1] if isinstance(want, tuple) and want[0] == "arr" else None
            return self.new_array([own(self.val(self.ev(x, env, frame, ety))) for x in e[1]])
        if k == "repeat":
            ety = want[1] if isinstance(want, tuple) and want[0] == "arr" else None
            n = self.pyint(self.ev(e[2], env, frame), "array length")
            x = self.val(self.ev(e[1], env, frame, ety))
            if n <= SMALL:
                return [own(x) for _ in range(n)]
            if isinstance(x, (list, BigArr, Obj)):
                raise Unsupported("large array of arrays")
            return BigArr(n, x.ty if isinstance(x, I) else (ety if ety in W else None), x)
        if k == "tuple":
            return [self.ev(x, env, frame) for x in e[1]]
        if k == "struct":
            name = e[1] if e[1] != "Self" else frame["unit"]
            if name not in self.c.units:
                raise Unsupported(f"struct {name}")
            decl = {n: self.ty(self.tystr(tt)) for n, tt in self.c.units[name]["fields"]}
            f = {}
            for n, x in e[2]:
                v = self.val(self.ev(x, env, frame, want=decl.get(n)))
                if decl.get(n) in W and isinstance(v, (int, I)) and not isinstance(v, bool):
                    v = self.cast_to(v, decl[n])
                if self.is_arr(v):
                    v = self.materialise(v)
                    if isinstance(decl.get(n), tuple) and decl[n][0] == "arr":
                        self.retype(v, decl[n][1])
                f[n] = v
            if set(f) != set(decl):
                raise Unsupported(f"struct literal of {name} does not set exactly its fields")
            return Obj(name, f)
        if k == "closure":
            return ("closure", e[1], e[2], env)
        if k == "try":
            v = self.ev(e[1], env, frame)
            if isinstance(v, tuple) and v and v[0] == "result":
                return v[1]        # the failing path was split off where the fallible request was made (src_fill)
            raise Unsupported("`?` on this expression")
        if k == "unsafe":
            return self.unsafe_block(e[1], env, frame)
        if k == "macro":
            if e[1] in ("panic", "unreachable", "unimplemented", "todo"):
                self.may_abort(True)
                return None
            raise Unsupported(f"macro {e[1]}!")
        if k == "range":
            raise Unsupported("range value")
        if k == "str":
            return ("str", e[1])
        raise Unsupported(f"expression {k}")

    def effects(self, e):
        """can evaluating `e` trap or write? (conservative, syntactic)"""
        k = e[0]
        if k in ("lit", "bool", "path", "str"):
            return False
        if k in ("paren", "deref"):
            return self.effects(e[1])
        if k in ("ref", "un"):
            return self.effects(e[2])
        if k == "field":
            return self.effects(e[1])
        if k == "cast":
            return self.effects(e[1])
        if k == "bin":
            if e[1] in ("+", "-", "*", "/", "%", "<<", ">>"):
                return True
            return self.effects(e[2]) or self.effects(e[3])
        if k == "mcall" and e[2] in ("wrapping_add", "wrapping_sub", "wrapping_mul", "rotate_left", "rotate_right", "len", "is_empty"):
            return self.effects(e[1]) or any(self.effects(a) for a in e[3])
        return True

    def writes(self, e):
        """can evaluating `e` change state? (conservative, syntactic: any call that is not a known pure method)"""
        k = e[0]
        if k in ("lit", "bool", "path", "str"):
            return False
        if k in ("paren", "deref"):
            return self.writes(e[1])
        if k in ("ref", "un"):
            return self.writes(e[2])
        if k in ("field", "cast"):
            return self.writes(e[1])
        if k == "index":
            return self.writes(e[1]) or (e[2][0] != "range" and self.writes(e[2]))
        if k == "bin":
            return self.writes(e[2]) or self.writes(e[3])
        if k == "mcall" and e[2] in ("wrapping_add", "wrapping_sub", "wrapping_mul", "rotate_left", "rotate_right", "len", "is_empty",
                                     "abs", "wrapping_abs", "unsigned_abs", "min", "max", "leading_zeros", "trailing_zeros", "count_ones"):
            return self.writes(e[1]) or any(self.writes(a) for a in e[3])
        return True

    def apply_closure(self, c, args, frame):
        if isinstance(c, tuple) and c and c[0] == "builtin" and c[1] == "w" and len(args) == 1:
            v = self.val(args[0])
            if isinstance(v, I):
                return I(v.v if v.v is not None else v._e, "w:" + base_ty(v.ty), v.n, v.ub)
            return v
        if not (isinstance(c, tuple) and c and c[0] == "closure"):
            raise Unsupported("call of a non-closure")
        _, params, body, cenv = c
        if any(p in ("(", ")") for p in params):
            params = [p for p in params if p not in ("(", ")")]
            flat = []
            for a in args:
                flat += list(a) if isinstance(a, list) else [a]
            if len(flat) != len(params):
                nested = []
                for a in flat:
                    nested += list(a) if isinstance(a, list) else [a]
                flat = nested
            args = flat
        if len(params) != len(args):
            raise Unsupported("closure arity")
        env = list(cenv) + [dict(zip(params, args))]
        return self.ev(body, env, frame)

    # ------------------------------------------------------------ byte sources (`rng: &mut impl RngCore`)
    def src_take(self, src, nbytes):
        """the next nbytes of the scripted source as u8 values; all requests are recorded (they are observable)"""
        src.requests.append(nbytes)
        out = []
        for i in range(nbytes):
            if src.data is not None:
                out.append(I(src.data(src.pos + i), "u8"))
            else:
                out.append(mk(z3.Select(src.arr, z3.BitVecVal(src.pos + i, 64)), "u8"))
        src.pos += nbytes
        return out

    def src_fill(self, src, dest, fallible):
        n = self.a_len(dest)
        bs = self.src_take(src, n)
        if fallible and src.data is None:
            # the request may fail: the function then returns the error at once; the rest runs on the success path only
            f = z3.Bool(f"src_fail_{len(src.requests)}")
            src.fails.append(f)
            self.pc.append(z3.Not(f))
        for i, b in enumerate(bs):
            self.a_set(dest, i, b)

    def unsafe_block(self, toks, env, frame):
        """the one accepted idiom: a local word array is filled with bytes of the source through a raw byte view
        (little-endian host): `let ptr = ARR.as_mut_ptr() as *mut u8; let slice = slice::from_raw_parts_mut(ptr, LEN);
        RNG.fill_bytes(slice);` (or `RNG.try_fill_bytes(slice)?;`)"""
        txt = " ".join(t[1] for t in toks)
        m = re.match(r"^let (\w+) = (\w+) \. as_mut_ptr \( \) as \* mut u8 ; let (\w+) = (?:core :: |std :: )?slice :: from_raw_parts_mut \( (\w+) , (.+?) \) ; "
                     r"(\w+) \. (fill_bytes|try_fill_bytes) \( (\w+) \) (\? )?;$", txt)
        if not m or m.group(1) != m.group(4) or m.group(3) != m.group(8) or (m.group(7) == "try_fill_bytes") != bool(m.group(9)):
            raise Unsupported("unsafe block")
        arr = self.ev_(("path", [m.group(2)]), env, frame)
        src = self.val(self.ev_(("path", [m.group(6)]), env, frame))
        if not isinstance(arr, (list, BigArr)) or not isinstance(src, Src):
            raise Unsupported("unsafe block: operands")
        ln = self.pyint(self.ev(rsfront.Parser(rsfront.lex(m.group(5).replace(" ", "")), self.c.macros).parse_expr_all(), env, frame), "length")
        ety = self.ety_of(arr)
        if ety is None and isinstance(arr, BigArr):
            ety = arr.width() and arr.ety
        if ety is None or ln != self.a_len(arr) * (W[ety] // 8):
            raise Unsupported("unsafe block: the byte view does not cover exactly the array")
        k = W[ety] // 8
        tmp = [None] * ln
        self.src_fill(src, tmp, m.group(7) == "try_fill_bytes")
        for i in range(self.a_len(arr)):
            bs = tmp[k * i:k * i + k]
            self.a_set(arr, i, mk(z3.Concat(*[b.e for b in reversed(bs)]), ety, *bs))
        return None

    def mcall(self, e, env, frame, want):
        _, recv, name, args = e
        # iterator consumers
        if name in ("all", "any", "fold", "sum", "for_each", "count", "last", "position", "max", "min") and recv[0] in ("mcall", "paren", "range"):
            it = self.iter_of(recv, env, frame)
            if it is not None:
                return self.consume(it, name, args, env, frame, want)
        r = self.ev_(recv, env, frame, want if name.startswith("wrapping") or name.startswith("rotate") else None)
        if not isinstance(r, (View, Ref)) or name not in ("copy_from_slice",):
            pass
        rv = self.val(r)
        if isinstance(rv, Obj):
            if name in self.c.units[rv.unit]["methods"]:
                return self.call_method(rv, name, [self.ev_arg(a, env, frame) for a in args])
            if name == "clone":
                return rv.copy()
            if list(rv.f) == ["0"] and self.is_arr(rv.f["0"]):
                rv = rv.f["0"]
            elif list(rv.f) == ["inner"] and self.is_arr(rv.f["inner"]) and name in ("iter", "iter_mut", "as_ref", "as_mut", "len"):
                rv = rv.f["inner"]
            else:
                raise Unsupported(f"method {rv.unit}::{name}")
        if isinstance(rv, Src):
            if name in ("fill_bytes", "try_fill_bytes"):
                dest = self.ev_arg(args[0], env, frame)
                if not self.is_arr(dest):
                    raise Unsupported("fill_bytes into a non-array")
                et = self.ety_of(dest)
                if et is not None and W[et] != 8:
                    raise Unsupported("fill_bytes into a non-byte buffer")
                self.src_fill(rv, dest, name == "try_fill_bytes")
                return ("result", None) if name == "try_fill_bytes" else None
            raise Unsupported(f"source method {name}")
        if self.is_arr(rv):
            return self.arr_method(rv, name, args, env, frame, want)
        r = rv
        if isinstance(r, tuple) and r and r[0] == "defer":
            r = self.undefer(r, None)
        if name in ("wrapping_add", "wrapping_sub", "wrapping_mul"):
            b = self.val(self.ev(args[0], env, frame, r.ty if isinstance(r, I) else want))
            op = {"wrapping_add": "+", "wrapping_sub": "-", "wrapping_mul": "*"}[name]
            if isinstance(r, int) and isinstance(b, int) and want not in W:
                raise Unsupported("wrapping arithmetic on untyped integers")
            return self.binop(op, r, b, want)
        if isinstance(r, int) and not isinstance(r, bool) and want in W:
            r = I(r, want)
        if name in ("rotate_left", "rotate_right"):
            if not isinstance(r, I):
                raise Unsupported("rotate of untyped literal")
            n = conc(self.val(self.ev(args[0], env, frame)))
            if n is None:
                raise Unsupported("rotate by symbolic amount")
            n %= r.w
            if name == "rotate_right":
                n = (r.w - n) % r.w
            if r.v is not None:
                return I(((r.v << n) | (r.v >> (r.w - n))) if n else r.v, r.ty)
            return mk(z3.RotateLeft(r.e, n), r.ty, r)
        if name in ("saturating_add", "saturating_sub", "checked_add", "checked_sub", "overflowing_add", "overflowing_sub") and isinstance(r, I):
            b = self.val(self.ev(args[0], env, frame, r.ty))
            a, b = self.coerce2(r, b)
            if not isinstance(b, I) or a.w != b.w:
                raise Unsupported(name)
            op = "+" if name.endswith("add") else "-"
            ov = self.overflow(op, a, b)
            res = self.binop(op, a, b, None)
            if name.startswith("saturating"):
                w, sg = a.w, a.signed
                if sg:
                    raise Unsupported("signed saturating arithmetic")
                sat = I(((1 << w) - 1) if op == "+" else 0, a.ty)
                if isinstance(ov, bool):
                    return sat if ov else res
                self.note_branch(ov)
                return self.merge_val(ov, sat, res)
            if name.startswith("overflowing"):
                return [res, ov]
            raise Unsupported(name)
        if name == "to_le_bytes" and isinstance(r, I):
            if r.v is not None:
                return [I((r.v >> (8 * i)) & 255, "u8") for i in range(r.w // 8)]
            return [mk(z3.Extract(8 * i + 7, 8 * i, r.e), "u8", r) for i in range(r.w // 8)]
        if name == "to_be_bytes" and isinstance(r, I):
            return list(reversed(self.mcall(("mcall", recv, "to_le_bytes", []), env, frame, None)))
        if name in ("to_le", "from_le") and isinstance(r, I):
            return r                                   # little-endian host (an assumption of the whole framework)
        if name in ("as_mut", "as_ref", "iter", "into", "borrow", "borrow_mut"):
            return r
        if name in ("clone", "to_owned"):
            return own(r)
        if name == "wrapping_neg" and isinstance(r, I):
            return I(-r.v, r.ty) if r.v is not None else mk(-r.e, r.ty, r)
        if name in ("abs", "wrapping_abs", "unsigned_abs") and isinstance(r, I) and r.signed:
            ty = r.ty if name != "unsigned_abs" else "u" + base_ty(r.ty)[1:]
            m = 1 << (r.w - 1)
            if name == "abs":
                self.may_panic((r.v == m) if r.v is not None else (r.e == z3.BitVecVal(m, r.w)))
            if r.v is not None:
                return I(abs(sx(r.v, r.w)), ty)
            return mk(z3.If(r.e < 0, -r.e, r.e), ty, r)
        if name in ("min", "max") and isinstance(r, I):
            b = self.val(self.ev(args[0], env, frame, r.ty))
            a, b = self.coerce2(r, b)
            c = self.binop("<=" if name == "min" else ">=", a, b, None)
            if isinstance(c, bool):
                return a if c else b
            self.note_branch(c)
            return self.merge_val(c, a, b)
        if name in ("leading_zeros", "trailing_zeros", "count_ones") and isinstance(r, I) and r.v is not None:
            x, w = r.v, r.w
            if name == "count_ones":
                return I(bin(x).count("1"), "u32")
            if name == "leading_zeros":
                return I(w - x.bit_length(), "u32")
            return I(w if x == 0 else (x & -x).bit_length() - 1, "u32")
        if name in ("wrapping_shl", "wrapping_shr") and isinstance(r, I):
            b = self.val(self.ev(args[0], env, frame, "u32"))
            rr = I(r.v if r.v is not None else r._e, "w:" + base_ty(r.ty), r.n, r.ub)
            x = self.shift("<<" if name.endswith("shl") else ">>", rr, b)
            return I(x.v if x.v is not None else x._e, r.ty, x.n, x.ub)
        if name == "pow" and isinstance(r, I) and r.v is not None:
            b = self.pyint(self.ev(args[0], env, frame), "exponent")
            x = (sx(r.v, r.w) if r.signed else r.v) ** b
            if not is_wr(r.ty) and not (0 <= x < (1 << r.w)) and not r.signed:
                self.may_panic(True)
            return I(x, r.ty)
        raise Unsupported(f"method .{name}()")

    def ev_arg(self, a, env, frame):
        """argument of a call: references are passed as references, arrays as themselves (bind copies by-value ones)"""
        if a[0] == "ref":
            return self.place_ref(a[2], env, frame, a[1])
        return self.ev(a, env, frame)

    def consume(self, it, name, args, env, frame, want):
        if name == "fold":
            acc = self.ev(args[0], env, frame, want)
            c = self.ev(args[1], env, frame)
            for x in it.gen():
                acc = self.apply_closure(c, [acc, x], frame)
            return acc
        if name == "for_each":
            c = self.ev(args[0], env, frame)
            for x in it.gen():
                self.apply_closure(c, [x], frame)
            return None
        if name == "count":
            for x in it.gen():
                pass
            return I(it.n, "usize")
        if name == "sum":
            acc = None
            for x in it.gen():
                x = self.val(x)
                acc = x if acc is None else self.binop("+", acc, x, want, chk=frame.get("checked", True))
            return acc if acc is not None else (I(0, want) if want in W else 0)
        if name in ("all", "any"):
            c = self.ev(args[0], env, frame)
            parts = []
            for x in it.gen():
                p = self.apply_closure(c, [x], frame)
                cb = conc_bool(p)
                if cb is not None and all(isinstance(q, bool) for q in parts):
                    if (name == "all" and not cb) or (name == "any" and cb):
                        return cb                    # short-circuit, as the real iterator does
                    parts.append(cb)
                else:
                    if self.symbolic and self.effects(c[2]):
                        raise Unsupported("short-circuiting iterator test over symbolic data with a closure that can trap")
                    parts.append(p)
            if all(isinstance(p, bool) for p in parts):
                return all(parts) if name == "all" else any(parts)
            ps = [zbool(p) for p in parts]
            return simp(z3.And(*ps) if name == "all" else z3.Or(*ps))
        raise Unsupported(f"iterator method .{name}()")

    def arr_method(self, r, name, args, env, frame, want):
        n = self.a_len(r)
        if name == "len":
            return I(n, "usize")
        if name == "is_empty":
            return n == 0
        if name in ("as_mut", "as_ref", "iter", "iter_mut", "into", "as_slice", "as_mut_slice", "borrow", "borrow_mut", "into_iter"):
            return r
        if name in ("clone", "to_vec", "to_owned"):
            return self.materialise(r)
        if name in ("split_at", "split_at_mut"):
            k = self.pyint(self.ev(args[0], env, frame), "split point")
            if k > n:
                self.may_abort(True); k = n
            return [View(r, 0, k), View(r, k, n - k)]
        if name in ("copy_from_slice", "clone_from_slice"):
            src = self.val(self.ev_arg(args[0], env, frame))
            if not self.is_arr(src):
                raise Unsupported("copy_from_slice from a non-array")
            if self.a_len(src) != n:
                self.may_abort(True)
                return None
            xs = self.elems(src)
            for i, x in enumerate(xs):
                self.a_set(r, i, x)
            return None
        if name == "copy_within":
            rg = args[0]
            while rg[0] == "paren":
                rg = rg[1]
            if rg[0] != "range":
                raise Unsupported("copy_within: range")
            lo = self.pyint(self.ev(rg[1], env, frame), "range bound") if rg[1] is not None else 0
            hi = (self.pyint(self.ev(rg[2], env, frame), "range bound") + (1 if rg[3] else 0)) if rg[2] is not None else n
            d = self.pyint(self.ev(args[1], env, frame), "destination")
            if lo > hi or hi > n or d + (hi - lo) > n:
                self.may_abort(True)
                return None
            xs = [self.a_get(r, i) for i in range(lo, hi)]
            for i, x in enumerate(xs):
                self.a_set(r, d + i, x)
            return None
        if name == "fill":
            x = self.val(self.ev(args[0], env, frame, self.ety_of(r)))
            for i in range(n):
                self.a_set(r, i, x)
            return None
        if name == "swap":
            i, j = self.ev(args[0], env, frame), self.ev(args[1], env, frame)
            x, y = self.a_get(r, i), self.a_get(r, j)
            self.a_set(r, i, y); self.a_set(r, j, x)
            return None
        if name == "map" and isinstance(r, (list, BigArr)):
            f = self.ev(args[0], env, frame)
            return self.new_array([self.val(self.apply_closure(f, [x], frame)) for x in self.elems(r)])
        if name in ("rotate_left", "rotate_right"):
            k = self.pyint(self.ev(args[0], env, frame), "rotation")
            if k > n:
                self.may_abort(True)
                return None
            xs = self.elems(r)
            xs = xs[k:] + xs[:k] if name == "rotate_left" else xs[n - k:] + xs[:n - k]
            for i, x in enumerate(xs):
                self.a_set(r, i, x)
            return None
        if name == "reverse":
            xs = list(reversed(self.elems(r)))
            for i, x in enumerate(xs):
                self.a_set(r, i, x)
            return None
        if name in ("first", "last") :
            raise Unsupported(f"Option-valued .{name}()")
        if name == "contains":
            x = self.val(self.ev_arg(args[0], env, frame))
            ps = [self.binop("==", y, x, None) for y in self.elems(r)]
            if all(isinstance(p, bool) for p in ps):
                return any(ps)
            return simp(z3.Or(*[zbool(p) for p in ps]))
        raise Unsupported(f"method .{name}() on an array")

    def call(self, e, env, frame, want):
        f, args = e[1], e[2]
        if f[0] != "path":
            fv = self.ev_(f, env, frame)
            if isinstance(fv, tuple) and fv and fv[0] == "closure":
                return self.apply_closure(fv, [self.ev_arg(a, env, frame) for a in args], frame)
            raise Unsupported("call of non-path")
        segs = f[1]
        name, full = segs[-1], "::".join(segs)
        if name in ("w", "Wrapping") and len(args) == 1 and self.look(env, "fn:" + name) is None and name not in self.c.fns:
            bw = base_ty(want) if want in W else None
            v = self.val(self.ev(args[0], env, frame, bw))
            if isinstance(v, I):
                return I(v.v if v.v is not None else v._e, "w:" + base_ty(v.ty), v.n, v.ub)
            return v
        if name in ("Ok", "Some") and len(segs) == 1 and len(args) == 1:
            if name == "Some":
                raise Unsupported("Option value")
            return ("result", self.ev(args[0], env, frame))
        if full in ("u32::from_le_bytes", "u64::from_le_bytes", "u16::from_le_bytes", "u128::from_le_bytes",
                    "u32::from_be_bytes", "u64::from_be_bytes"):
            bs = self.val(self.ev(args[0], env, frame))
            n = W[segs[0]] // 8
            if not self.is_arr(bs) or self.a_len(bs) != n:
                raise Unsupported(f"{full}: argument is not an array of {n} bytes")
            bs = [self.cast_to(b, "u8") for b in self.elems(bs)]
            if "be" in name:
                bs = list(reversed(bs))
            if all(b.v is not None for b in bs):
                return I(sum(b.v << (8 * i) for i, b in enumerate(bs)), segs[0])
            return mk(z3.Concat(*[b.e for b in reversed(bs)]), segs[0], *bs)
        if len(segs) == 2 and segs[0] in _BASE and name == "from":
            v = self.val(self.ev(args[0], env, frame))
            if isinstance(v, I) and (v.w > W[segs[0]] or (v.signed and not segs[0].startswith("i"))):
                raise Unsupported("lossy From conversion")
            return self.cast_to(v, segs[0])
        if name in ("read_u32_into", "read_u64_into"):
            src = self.val(self.ev_arg(args[0], env, frame))
            dst = self.val(self.ev_arg(args[1], env, frame))
            n = 4 if name == "read_u32_into" else 8
            ty = "u32" if n == 4 else "u64"
            if not self.is_arr(src) or not self.is_arr(dst):
                raise Unsupported("read_into: operands")
            nd = self.a_len(dst)
            if self.a_len(src) < n * nd:
                self.may_abort(True)
                return None
            for i in range(nd):
                bs = [self.cast_to(self.a_get(src, n * i + j), "u8") for j in range(n)]
                if all(b.v is not None for b in bs):
                    x = I(sum(b.v << (8 * j) for j, b in enumerate(bs)), ty)
                else:
                    x = mk(z3.Concat(*[b.e for b in reversed(bs)]), ty, *bs)
                self.a_set(dst, i, x)
            return None
        if name == "next_u64_via_u32":
            o = self.val(self.ev(args[0], env, frame))
            x = self.call_method(o, "next_u32", [])
            y = self.call_method(o, "next_u32", [])
            return mk((z3.ZeroExt(32, y.e) << 32) | z3.ZeroExt(32, x.e), "u64", x, y)
        if name == "fill_bytes_via_next":
            o = self.val(self.ev(args[0], env, frame))
            dst = self.ev_arg(args[1], env, frame)
            out = fill_bytes_via_next(self, o, self.a_len(dst))
            for i, x in enumerate(out):
                self.a_set(dst, i, x)
            return None
        if name in ("size_of",) :
            raise Unsupported("size_of")
        unit = frame["unit"]
        tgt = None
        if len(segs) >= 2 and segs[-2] in ("Self",):
            tgt = unit
        elif len(segs) >= 2 and segs[-2] in self.c.units:
            tgt = segs[-2]
        if tgt is not None:
            avals = [self.ev_arg(a, env, frame) for a in args]
            if name in self.c.units[tgt]["methods"]:
                return self.call_assoc(tgt, name, avals)
            if name == "from_rng":      # rand_core default: seed = default(); rng.fill_bytes(seed); from_seed(seed)
                n = self.seed_len(tgt)
                rng = self.val(avals[0])
                seed = fill_bytes_obj(self, rng, n)
                return self.call_assoc(tgt, "from_seed", [seed])
            if name == "seed_from_u64" :
                raise Unsupported("default seed_from_u64 (PCG32)")
            raise Unsupported(f"function {tgt}::{name}")
        if len(segs) == 1 and self.look(env, "fn:" + name) is not None:
            fn = self.look(env, "fn:" + name)["fn:" + name]
            return self.call_nested(fn, [self.ev_arg(a, env, frame) for a in args], env, frame)
        if len(segs) == 1 and self.look(env, name) is not None:
            fv = self.look(env, name)[name]
            if isinstance(fv, tuple) and fv and fv[0] == "closure":
                return self.apply_closure(fv, [self.ev_arg(a, env, frame) for a in args], frame)
        if name in self.c.fns and (len(segs) == 1 or segs[0] in ("crate", "self", "super", "common")):
            return self.call_free(name, [self.ev_arg(a, env, frame) for a in args], unit)
        raise Unsupported(f"call of {full}")

    def seed_len(self, unit):
        return self.c.seed_lens[unit]

class Src:
    """a scripted byte source (`rng: &mut impl RngCore`): the bytes are one symbolic array shared by the two versions"""
    def __init__(self, name="src", data=None):
        self.arr = z3.Array(name, z3.BitVecSort(64), z3.BitVecSort(8))
        self.data = data                      # concrete runs: position -> byte
        self.pos, self.requests, self.fails = 0, [], []

def fill_bytes_obj(it, obj, n):
    if "fill_bytes" in it.c.units[obj.unit]["methods"]:
        buf = [I(0, "u8") for _ in range(n)]
        it.call_method(obj, "fill_bytes", [buf])
        return buf
    return fill_bytes_via_next(it, obj, n)

def _bytes_of(w, k):
    if w.v is not None:
        return [I((w.v >> (8 * i)) & 255, "u8") for i in range(k)]
    return [mk(z3.Extract(8 * i + 7, 8 * i, w.e), "u8", w) for i in range(k)]

def fill_bytes_via_next(it, obj, n):
    """rand_core::impls::fill_bytes_via_next"""
    out = []
    left = n
    while left >= 8:
        w = it.call_method(obj, "next_u64", [])
        out += _bytes_of(w, 8)
        left -= 8
    if left > 4:
        w = it.call_method(obj, "next_u64", [])
        out += _bytes_of(w, left)
    elif left > 0:
        w = it.call_method(obj, "next_u32", [])
        out += _bytes_of(w, left)
    return out

class Seq:
    """iterator over n lazily fetched items"""
    def __init__(self, n, fetch):
        self.n, self.fetch = n, fetch
    def gen(self):
        for i in range(self.n):
            yield self.fetch(i)
    def rev(self):
        n, f = self.n, self.fetch
        return Seq(n, lambda i: f(n - 1 - i))
    def take(self, k):
        return Seq(min(self.n, k), self.fetch)
    def skip(self, k):
        f = self.fetch
        return Seq(max(0, self.n - k), lambda i: f(i + k))
    def step(self, k):
        f = self.fetch
        return Seq((self.n + k - 1) // k, lambda i: f(i * k))

class MapIt:
    def __init__(self, src, f):
        self.src, self.f, self.n = src, f, src.n
    def gen(self):
        for x in self.src.gen():
            yield self.f(x)
    def rev(self):
        return MapIt(self.src.rev(), self.f)
    def take(self, k):
        return MapIt(self.src.take(k), self.f)
    def skip(self, k):
        raise Unsupported("skip after map")          # Rust would still run the closure on the skipped items
    def step(self, k):
        raise Unsupported("step_by after map")

class EnumIt:
    def __init__(self, src):
        self.src, self.n = src, src.n
    def gen(self):
        for i, x in enumerate(self.src.gen()):
            yield [I(i, "usize"), x]
    def rev(self):
        raise Unsupported("rev after enumerate")
    def take(self, k):
        return EnumIt(self.src.take(k))
    def skip(self, k):
        raise Unsupported("skip after enumerate")
    def step(self, k):
        raise Unsupported("step_by after enumerate")

class ZipIt:
    def __init__(self, a, b):
        if isinstance(a, MapIt) and a.n > b.n:
            raise Unsupported("zip: the mapped first iterator is longer (its closure would run once more)")
        self.a, self.b, self.n = a, b, min(a.n, b.n)
    def gen(self):
        # Rust's Zip asks the first iterator, then the second; lengths are static here, so nothing is fetched beyond the end
        ga, gb = self.a.take(self.n).gen() if hasattr(self.a, "take") else self.a.gen(), self.b.gen()
        for _ in range(self.n):
            x = next(ga)
            y = next(gb)
            yield [x, y]
    def rev(self):
        if self.a.n != self.b.n:
            raise Unsupported("rev of a zip of different lengths")
        return ZipIt(self.a.rev(), self.b.rev())
    def take(self, k):
        return ZipIt(self.a.take(k), self.b.take(k))
    def skip(self, k):
        return ZipIt(self.a.skip(k), self.b.skip(k))
    def step(self, k):
        return ZipIt(self.a.step(k), self.b.step(k))
