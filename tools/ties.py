"""Per-property correspondence families (the tie between the Lean model and /repo's current
code) and falsifiers.  See DESIGN.md §3 and §7."""
import collections, hashlib, random
from common import *
import gf2

MASK64 = (1 << 64) - 1
PHI = 0x9e3779b97f4a7c15

# ------------------------------------------------------------------ input classes
def seed_classes(rng, nbytes, nrand, all_bits=True, nzero_walk=8):
    """structured, mostly-valid seeds: every basis bit, walking zeros, single bytes, high-bit
    words, all ones, and uniform random ones. Returns list of (class, bytes)."""
    n = nbytes * 8
    out = []
    bits = range(n) if all_bits else rng.sample(range(n), min(n, 16))
    for j in bits:
        out.append(("basis", (1 << j).to_bytes(nbytes, "little")))
    allones = (1 << n) - 1
    for j in rng.sample(range(n), min(n, nzero_walk)):
        out.append(("walk0", (allones ^ (1 << j)).to_bytes(nbytes, "little")))
    out.append(("ones", allones.to_bytes(nbytes, "little")))
    for pos in range(nbytes):
        b = bytearray(nbytes); b[pos] = rng.choice([1, 0x80, 0xff, rng.randrange(1, 256)])
        out.append(("byte", bytes(b)))
    for wsize in (4, 8):
        if nbytes % wsize == 0:
            b = bytearray(nbytes)
            for k in range(nbytes // wsize):
                b[k * wsize + wsize - 1] = 0x80
            out.append(("highbit", bytes(b)))
    for _ in range(nrand):
        out.append(("random", rand_bytes(rng, nbytes)))
    return out

FILL_LENGTHS = ([0, 1, 2, 3, 4, 5, 6, 7, 8, 9, 15, 16, 17, 31, 32, 33, 63, 64, 65, 255, 256, 257, 258,
                 1023, 1024, 1025, 1026, 1027, 1028, 1029, 1030, 2047, 2048, 2049, 2050])

def rand_ops(rng, k, maxfill=3000, small_bias=0.7):
    ops = []
    for _ in range(k):
        r = rng.random()
        if r < 0.3:
            ops.append("u32")
        elif r < 0.55:
            ops.append("u64")
        else:
            if rng.random() < small_bias:
                n = rng.choice(FILL_LENGTHS[:22])
            elif rng.random() < 0.5:
                n = rng.choice(FILL_LENGTHS)
            else:
                n = rng.randrange(0, maxfill)
            ops.append(f"fill {n}")
    return ops

def op_lines(slot, ops):
    out = []
    for o in ops:
        if o.startswith("fill"):
            out.append(f"fill {slot} {o.split()[1]}")
        else:
            out.append(f"{o} {slot}")
    return out

def words_needed(g, ops):
    """upper bound on native words consumed by ops"""
    w = GENS[g]["w"]
    tot = 0
    for o in ops:
        if o == "u32":
            tot += 1
        elif o == "u64":
            tot += 2 if w == 32 else 1
        else:
            n = int(o.split()[1])
            tot += (n // 4 + 3) if w == 32 else (n // 8 + 2)
    return tot + 2

# ------------------------------------------------------------------ C01 / C04: native step
def native_cases(ctx, gens, nrand_q, nrand_t, steps_basis=3, steps_rand=24):
    cases = []
    for g in gens:
        info = GENS[g]
        nat = native(g)
        nrand = ctx.scale(nrand_q, nrand_t)
        walk = ctx.scale(8, info["seed"] * 8)
        for cls, seed in seed_classes(ctx.rng, info["seed"], nrand, nzero_walk=walk):
            k = steps_rand if cls in ("random", "ones", "highbit") else steps_basis
            c = [f"new 0 {g} seed {seed.hex()}", "ser 0"]
            for _ in range(k):
                c += [f"{nat} 0", "ser 0"]
            if g == "SplitMix64":
                c += ["clone 1 0", "u32 1", "ser 1", "u32 0", "u64 0", "ser 0"]
            cases.append(c)
            ctx.dist[f"{g}:{cls}"] += 1
    return cases

def tie_C01(ctx):
    cases = native_cases(ctx, XOSHIRO_FAMILY, 60, 1500)
    ctx.absolute("native-step(xoshiro family): from_seed, native outputs and state image after every step", cases)

def tie_C04(ctx):
    cases = native_cases(ctx, ["XorShiftRng"], 400, 8000, steps_basis=6, steps_rand=40)
    ctx.absolute("native-step(XorShiftRng)", cases)

# ------------------------------------------------------------------ C02 / C03: keystreams
def tie_C02(ctx):
    rng = ctx.rng
    cases = []
    seeds = []
    for pos in range(32):
        for v in ([1, 0x80, 0xff] if ctx.thorough else [rng.choice([1, 0x80, 0xff, 0x55])]):
            b = bytearray(32); b[pos] = v
            seeds.append(("byte", bytes(b)))
    seeds.append(("zero", bytes(32)))
    seeds.append(("ones", b"\xff" * 32))
    for _ in range(ctx.scale(40, 600)):
        seeds.append(("random", rand_bytes(rng, 32)))
    long_idx = set(rng.sample(range(len(seeds)), ctx.scale(4, 40)))
    for i, (cls, s) in enumerate(seeds):
        words = 4200 if i in long_idx else rng.choice([16, 48, 80])
        c = [f"new 0 Hc128Rng seed {s.hex()}", "u32 0", "u32 0", f"fill 0 {4 * words}", "u64 0"]
        cases.append(c)
        ctx.dist[f"hc128:{cls}:{'4cycles' if words == 4200 else 'blocks'}"] += 1
    ctx.absolute("keystream(Hc128Rng) vs model", cases)

def tie_C03(ctx):
    rng = ctx.rng
    cases = []
    for g, wbytes in (("IsaacRng", 4), ("Isaac64Rng", 8)):
        nat = native(g)
        seeds = [("zero", bytes(32)), ("ones", b"\xff" * 32)]
        for k in range(32 // wbytes):
            b = bytearray(32); b[k * wbytes:(k + 1) * wbytes] = rand_bytes(rng, wbytes)
            seeds.append(("oneword", bytes(b)))
        for pos in rng.sample(range(32), ctx.scale(6, 32)):
            b = bytearray(32); b[pos] = rng.choice([1, 0x80, 0xff])
            seeds.append(("byte", bytes(b)))
        for _ in range(ctx.scale(30, 500)):
            seeds.append(("random", rand_bytes(rng, 32)))
        for cls, s in seeds:
            blocks = rng.choice([1, 3, 3, 5])
            c = [f"new 0 {g} seed {s.hex()}", f"{nat} 0", f"fill 0 {blocks * 256 * wbytes}", "u32 0", "u64 0"]
            cases.append(c)
            ctx.dist[f"{g}:{cls}"] += 1
        for x in [0, 1, MASK64, 1 << 32, (1 << 32) - 1] + [rng.getrandbits(64) for _ in range(ctx.scale(20, 300))]:
            cases.append([f"new 0 {g} u64 {x:016x}", f"{nat} 0", f"fill 0 {2 * 256 * wbytes}"])
            ctx.dist[f"{g}:seed_from_u64"] += 1
    ctx.absolute("stream(IsaacRng, Isaac64Rng) vs model", cases)

# ------------------------------------------------------------------ C05: projections of one stream
def proj_tokens(ops):
    return [("f" + o.split()[1]) if o.startswith("fill") else o for o in ops]

def tie_C05(ctx):
    rng = ctx.rng
    per_gen = ctx.scale(40, 600)
    cases, meta = [], []
    for g in GENS:
        info = GENS[g]
        for i in range(per_gen):
            seed = rand_bytes(rng, info["seed"])
            # start at an arbitrary buffer index for buffered generators
            pre = []
            if "blk" in info and rng.random() < 0.8:
                pre = ["u32"] * rng.choice([0, 1, 2, info["blk"] - 2, info["blk"] - 1, rng.randrange(info["blk"])])
                if info["cls"] == "block64":
                    pre = (["u64"] * (len(pre) % info["blk"])) + (["u32"] if rng.random() < 0.5 else [])
            ops = pre + rand_ops(rng, rng.randrange(3, 14), maxfill=2600 if "blk" in info else 300)
            need = words_needed(g, ops)
            nat = native(g)
            c = [f"new 0 {g} seed {seed.hex()}", "clone 1 0"] + op_lines(0, ops)
            nops = len(ops)
            # after the history: the subject's next native word (cursor check)
            c += [f"{nat} 0"]
            twin_start = len(c)
            if g == "SplitMix64":
                for _ in range(need):
                    c += ["clone 2 1", "u32 2", "u64 1"]
            else:
                c += [f"{nat} 1"] * need
            cases.append(c)
            meta.append((g, ops, nops, twin_start, need))
            for o in ops:
                ctx.dist["op:" + (o.split()[0])] += 1
                if o.startswith("fill"):
                    n = int(o.split()[1])
                    ctx.dist[f"tail%8={n % 8}"] += 1
    outs = ctx.real("projection(all 19 deterministic generators): history on subject, native-only twin", cases)
    # ask the executable Lean specification for the projection of the twin's *real* stream
    pcases = []
    for (g, ops, nops, ts, need), c, o in zip(meta, cases, outs):
        tw = o[ts:]
        if g == "SplitMix64":
            words = ",".join(f"{tw[3 * i + 2]}:{tw[3 * i + 1]}" for i in range(need))
        elif GENS[g]["cls"] == "direct64":
            half = GENS[g]["half"]
            words = ",".join(f"{w}:{w[:8] if half == 'upper' else w[8:]}" for w in tw)
        else:
            words = ",".join(tw)
        pcases.append([f"proj {GENS[g]['cls']} {words} " + " ".join(proj_tokens(ops))])
    pouts = run_chunks(DRIVER, pcases, chunk=200)
    for (g, ops, nops, ts, need), c, o, po in zip(meta, cases, outs, pouts):
        line = po[0]
        if " | " not in line:
            ctx.fail("projection", f"spec projection failed: {line}", c)
            continue
        vals, tail = line.split(" | ")
        exp = vals.split(" ") if vals else []
        act = o[2:2 + nops]
        ctx.traces_validated += 1
        if exp != act:
            k = next((i for i, (x, y) in enumerate(zip(exp, act)) if x != y), 0)
            ctx.fail("projection", f"{g}: op #{k} `{ops[k]}` is not the documented projection of the generator's own native stream",
                     c, expected=exp[k][:80], actual=act[k][:80])
            continue
        pos = int(tail.split("pos=")[1].split()[0])
        pending = tail.endswith("true")
        tw = o[ts:]
        nxt = o[2 + nops]
        if g == "SplitMix64":
            want = tw[3 * pos + 2]
        elif GENS[g]["cls"] == "block64" and False:
            want = tw[pos]
        else:
            want = tw[pos]
        if nxt != want:
            ctx.fail("projection", f"{g}: after the history the cursor is not at word {pos} of the native stream (a word was skipped or repeated)",
                     c, expected=want, actual=nxt)

PROPS = {
    "C01": dict(tie=tie_C01),
    "C02": dict(tie=tie_C02),
    "C03": dict(tie=tie_C03),
    "C04": dict(tie=tie_C04),
    "C05": dict(tie=tie_C05),
}
