"""Per-property correspondence families (the tie between the Lean model and /repo's current
code) and falsifiers.  See DESIGN.md §3 and §7."""
import collections, hashlib, random
from common import *
import gf2

MASK64 = (1 << 64) - 1
PHI = 0x9e3779b97f4a7c15

# ------------------------------------------------------------------ input classes
def seed_classes(rng, nbytes, nrand, all_bits=True, nzero_walk=8):
    """structured, mostly-valid seeds: every basis bit, walking zeros, single bytes, high-bit
    words, all ones, and uniform random ones. Returns list of (class, bytes)."""
    n = nbytes * 8
    out = []
    bits = range(n) if all_bits else rng.sample(range(n), min(n, 16))
    for j in bits:
        out.append(("basis", (1 << j).to_bytes(nbytes, "little")))
    allones = (1 << n) - 1
    for j in rng.sample(range(n), min(n, nzero_walk)):
        out.append(("walk0", (allones ^ (1 << j)).to_bytes(nbytes, "little")))
    out.append(("ones", allones.to_bytes(nbytes, "little")))
    for pos in range(nbytes):
        b = bytearray(nbytes); b[pos] = rng.choice([1, 0x80, 0xff, rng.randrange(1, 256)])
        out.append(("byte", bytes(b)))
    for wsize in (4, 8):
        if nbytes % wsize == 0:
            b = bytearray(nbytes)
            for k in range(nbytes // wsize):
                b[k * wsize + wsize - 1] = 0x80
            out.append(("highbit", bytes(b)))
    out += coincidence_seeds(rng, nbytes, k=max(2, nrand // 40))
    for _ in range(nrand):
        out.append(("random", rand_bytes(rng, nbytes)))
    return out

def coincidence_seeds(rng, nbytes, k=1):
    """seeds with a numeric coincidence between their words: words (32- and 64-bit) summing to 0 mod 2^w, xoring to 0,
    bytes summing to 0 mod 256, two equal words, negated pairs — inputs on which `sum == 0`, `xor == 0`, `a == b`
    style shortcuts misfire.  Never all-zero."""
    out = []
    for _ in range(k):
        for wsz in (4, 8):
            if nbytes % wsz or nbytes // wsz < 2:
                continue
            n = nbytes // wsz
            mod = 1 << (8 * wsz)
            ws = [rng.getrandbits(8 * wsz) for _ in range(n - 1)]
            out.append((f"sum0_{8*wsz}", b"".join(w.to_bytes(wsz, "little") for w in ws + [(-sum(ws)) % mod])))
            x = 0
            for w in ws:
                x ^= w
            out.append((f"xor0_{8*wsz}", b"".join(w.to_bytes(wsz, "little") for w in ws + [x])))
            # only two non-zero words: a and -a ; a and a
            a = rng.getrandbits(8 * wsz) | 1
            i, j = rng.sample(range(n), 2)
            for tag, b_ in (("neg_pair", (-a) % mod), ("eq_pair", a)):
                ws2 = [0] * n
                ws2[i], ws2[j] = a, b_
                out.append((f"{tag}_{8*wsz}", b"".join(w.to_bytes(wsz, "little") for w in ws2)))
        b = bytearray(rand_bytes(rng, nbytes - 1))
        b.append((-sum(b)) % 256)
        out.append(("bytesum0", bytes(b)))
        # byte-level patterns: one repeated byte; the same with one byte (first / last / any) zeroed or different; a zero
        # prefix / suffix of every length class — inputs on which "compare the buffer with itself shifted", "first byte
        # decides", chunked or vectorised zero tests misfire
        c = rng.randrange(1, 256)
        out.append(("bytes-const", bytes([c]) * nbytes))
        for pos in {0, nbytes - 1, rng.randrange(nbytes), (nbytes // 2) - 1, nbytes // 2}:
            b = bytearray([c]) * nbytes; b[pos] = 0
            out.append(("bytes-const-one-zero", bytes(b)))
            b = bytearray([c]) * nbytes; b[pos] = c ^ rng.randrange(1, 256)
            out.append(("bytes-const-one-other", bytes(b)))
        for cut in {1, 3, 4, 7, 8, nbytes // 2, nbytes - 8 if nbytes > 8 else 1, nbytes - 1}:
            if 0 < cut < nbytes:
                out.append(("zero-prefix", bytes(cut) + bytes([c]) * (nbytes - cut)))
                out.append(("zero-suffix", rand_bytes(rng, cut) + bytes(nbytes - cut)))
    return [(c, s_) for c, s_ in out if any(s_)]

_SRCCONST = {}
def source_constant_seeds(crate, nbytes, limit=60):
    """seeds built from the CURRENT source's own magic constants (hex literals of at least 5 digits, in textual order; the
    unit-test module excluded): every window of consecutive constants that fills the seed, as little-endian 32- and 64-bit
    words, taken as is, negated (x + c = 0 cancels an additive constant), complemented, and xor-ed into zero — the inputs on
    which an algorithm's own constants cancel.  Returns [(class, bytes)], never all-zero."""
    import glob, re
    key = (crate, nbytes)
    if key in _SRCCONST:
        return _SRCCONST[key][:limit]
    out, seen = [], set()
    for f in sorted(glob.glob(os.path.join(REPO, crate, "src", "*.rs"))):
        try:
            txt = re.sub(r"//[^\n]*", "", open(f).read())
        except OSError:
            continue
        txt = re.split(r"#\[cfg\(test\)\]\s*mod\s+\w+\s*\{", txt)[0]
        lits = [int(m.group(1).replace("_", ""), 16) for m in re.finditer(r"(?<![\w.])0x([0-9a-fA-F_]{5,})(?:[iu](?:32|64|size))?\b", txt)]
        for wsz in (4, 8):
            if nbytes % wsz:
                continue
            n = nbytes // wsz
            mod = 1 << (8 * wsz)
            cs = [v for v in lits if v < mod and (wsz == 4 or v >= (1 << 32))]
            for i in range(0, max(0, len(cs) - n + 1)):
                win = cs[i:i + n]
                for tag, ws in (("asis", win), ("neg", [(-v) % mod for v in win]), ("not", [v ^ (mod - 1) for v in win])):
                    b = b"".join(w.to_bytes(wsz, "little") for w in ws)
                    if any(b) and b not in seen:
                        seen.add(b); out.append((f"srcconst-{tag}{8 * wsz}", b))
            # a single constant (negated) in one word, the rest zero
            for v in cs[:24]:
                for k in range(n):
                    ws = [0] * n; ws[k] = (-v) % mod
                    b = b"".join(w.to_bytes(wsz, "little") for w in ws)
                    if any(b) and b not in seen:
                        seen.add(b); out.append((f"srcconst-one-neg{8 * wsz}", b))
    # windows first (they are the ones that can cancel a whole constant block), round-robin over the transforms
    out.sort(key=lambda cb: (cb[0].startswith("srcconst-one"),))
    _SRCCONST[key] = out
    return out[:limit]

def pick_seed(rng, nbytes):
    """mostly random, often structured: one bit, one byte, one zero word, repeated word, all ones, high bits"""
    r = rng.random()
    if r < 0.45:
        return rand_bytes(rng, nbytes)
    if r < 0.55:
        cs = coincidence_seeds(rng, nbytes)
        if cs:
            return rng.choice(cs)[1]
        return rand_bytes(rng, nbytes)
    if r < 0.65:
        return (1 << rng.randrange(nbytes * 8)).to_bytes(nbytes, "little")
    if r < 0.72:
        b = bytearray(nbytes); b[rng.randrange(nbytes)] = rng.choice([1, 0x80, 0xff]); return bytes(b)
    if r < 0.82:
        # random, but one 32-bit (or 64-bit) word zero
        b = bytearray(rand_bytes(rng, nbytes)); wsz = rng.choice([4, 8]) if nbytes >= 8 else 4
        k = rng.randrange(nbytes // wsz); b[k * wsz:(k + 1) * wsz] = bytes(wsz); return bytes(b)
    if r < 0.88:
        w = rand_bytes(rng, 4); return (w * (nbytes // 4 + 1))[:nbytes]
    if r < 0.93:
        return b"\xff" * nbytes
    if r < 0.97:
        b = bytearray(nbytes)
        for k in range(0, nbytes, 4):
            b[k + 3] = 0x80
        return bytes(b)
    return bytes(nbytes)

FILL_LENGTHS = ([0, 1, 2, 3, 4, 5, 6, 7, 8, 9, 15, 16, 17, 31, 32, 33, 63, 64, 65, 255, 256, 257, 258,
                 1023, 1024, 1025, 1026, 1027, 1028, 1029, 1030, 2047, 2048, 2049, 2050])

def rand_ops(rng, k, maxfill=3000, small_bias=0.7):
    ops = []
    for _ in range(k):
        r = rng.random()
        if r < 0.3:
            ops.append("u32")
        elif r < 0.55:
            ops.append("u64")
        else:
            if rng.random() < small_bias:
                n = rng.choice(FILL_LENGTHS[:22])
            elif rng.random() < 0.5:
                n = rng.choice(FILL_LENGTHS)
            else:
                n = rng.randrange(0, maxfill)
            ops.append(f"fill {n}")
    return ops

def fill_offset(n):
    """offset of the destination from a 16-byte aligned address: a third of the fills are aligned, the others are not"""
    return 0 if n % 3 == 0 else (n * 7 + 3) % 16

def op_lines(slot, ops):
    out = []
    for o in ops:
        if o.startswith("fill"):
            out.append(f"fill {slot} {o.split()[1]}")        # the destination's offset is added by common.place_destination
        else:
            out.append(f"{o} {slot}")
    return out

def words_needed(g, ops):
    """upper bound on native words consumed by ops"""
    w = GENS[g]["w"]
    tot = 0
    for o in ops:
        if o == "u32":
            tot += 1
        elif o == "u64":
            tot += 2 if w == 32 else 1
        else:
            n = int(o.split()[1])
            tot += (n // 4 + 3) if w == 32 else (n // 8 + 2)
    return tot + 2



# ------------------------------------------------------------------ numeric literals that are new in the current source
_NEWLIT = {}
def new_literals(maxv=1 << 64):
    """integer literals (and 1 << K constants) that occur in the current sources of the five crates but not in the pinned
    sources (/verif/pinned_src): thresholds, bounds and magic values a change introduced.  They are used as boundary values
    for lengths, counts and words.  Empty on the unchanged tree."""
    import glob, re
    if "v" not in _NEWLIT:
        def lits(root):
            out = set()
            for f in glob.glob(os.path.join(root, "rand_*", "src", "*.rs")):
                try:
                    txt = re.sub(r"//[^\n]*", "", open(f).read())
                except OSError:
                    continue
                txt = re.split(r"#\[cfg\(test\)\]\s*mod\s+\w+\s*\{", txt)[0]       # the unit-test module at the end of a file
                for m in re.finditer(r"(?<![\w.])(0x[0-9a-fA-F_]+|0b[01_]+|\d[\d_]*)(?:[iu](?:8|16|32|64|128|size))?\b", txt):
                    try:
                        out.add(int(m.group(1).replace("_", ""), 0))
                    except ValueError:
                        pass
                for m in re.finditer(r"\b1(?:[iu]\d+|usize)?\s*<<\s*(\d+)", txt):
                    out.add(1 << int(m.group(1)))
            return out
        cur, pin = lits(REPO), lits(os.path.join(VERIF, "pinned_src"))
        _NEWLIT["v"] = sorted(v for v in cur - pin if v > 3) if pin else []
    return [v for v in _NEWLIT["v"] if v <= maxv]

# ------------------------------------------------------------------ states chosen by the OUTPUT they produce / by a successor
def _rotr(x, r, w):
    r %= w
    return ((x >> r) | (x << (w - r))) & ((1 << w) - 1)

def state_with_output(rng, g, T):
    """a (non-zero) state of generator g whose next native output is exactly T (solved from the scrambler)"""
    info = GENS[g]
    w, nb = info["w"], info["seed"]
    M = (1 << w) - 1
    nw = nb * 8 // w
    s = [rng.getrandbits(w) | 1 for _ in range(nw)]
    def inv(m):
        return pow(m, -1, 1 << w)
    if g in ("Xoroshiro64Star",):
        s[0] = (T * inv(0x9E3779BB)) & M
    elif g == "Xoroshiro64StarStar":
        s[0] = (_rotr((T * inv(5)) & M, 5, w) * inv(0x9E3779BB)) & M
    elif g in ("Xoroshiro128Plus",):
        s[1] = (T - s[0]) & M
    elif g == "Xoroshiro128PlusPlus":
        s[1] = (_rotr((T - s[0]) & M, 17, w) - s[0]) & M
    elif g == "Xoroshiro128StarStar":
        s[0] = (_rotr((T * inv(9)) & M, 7, w) * inv(5)) & M
    elif g in ("Xoshiro128Plus", "Xoshiro256Plus"):
        s[3] = (T - s[0]) & M
    elif g == "Xoshiro128PlusPlus":
        s[3] = (_rotr((T - s[0]) & M, 7, w) - s[0]) & M
    elif g == "Xoshiro256PlusPlus":
        s[3] = (_rotr((T - s[0]) & M, 23, w) - s[0]) & M
    elif g in ("Xoshiro128StarStar", "Xoshiro256StarStar", "Xoshiro512StarStar"):
        s[1] = (_rotr((T * inv(9)) & M, 7, w) * inv(5)) & M
    elif g == "Xoshiro512Plus":
        s[2] = (T - s[0]) & M
    elif g == "Xoshiro512PlusPlus":
        s[0] = (_rotr((T - s[2]) & M, 17, w) - s[2]) & M
    elif g == "XorShiftRng":
        x = s[0]
        t = (x ^ (x << 11)) & M
        v = T ^ t ^ (t >> 8)            # w ^ (w >> 19) must equal v
        wv = v
        for _ in range(3):
            wv = v ^ (wv >> 19)
        s[3] = wv & M
    elif g == "SplitMix64":
        return None
    else:
        return None
    if not any(s):
        return None
    return b"".join(x.to_bytes(w // 8, "little") for x in s)

def special_states(rng, g, k=1):
    """structured states of a linear generator: numeric coincidences between words, states whose output is 0 / all-ones /
    1 / the high bit (guards on the produced value), one zero word"""
    info = GENS[g]
    w, nb = info["w"], info["seed"]
    out = [(c, s_) for c, s_ in coincidence_seeds(rng, nb, k=k)]
    for _ in range(k):
        for T, tag in ((0, "out=0"), ((1 << w) - 1, "out=ones"), (1, "out=1"), (1 << (w - 1), "out=highbit")):
            st = state_with_output(rng, g, T)
            if st is not None and any(st):
                out.append((tag, st))
        b = bytearray(rand_bytes(rng, nb)); wb = w // 8
        j = rng.randrange(nb // wb); b[j * wb:(j + 1) * wb] = bytes(wb)
        if any(b):
            out.append(("zero-word", bytes(b)))
    return out

def trajectory_preimages(ctx, g, targets, ks):
    """for each structured target state t and each k: the state s with T^k s = t (T = the REAL step: its minimal polynomial P
    is recovered by Berlekamp-Massey from the real orbit of t and s = (x^k mod P)^-1 (T) t is evaluated on that orbit) —
    inputs for code that looks at the state or at the output *after* a few steps"""
    n, nb = GENS[g]["n"], GENS[g]["seed"]
    res = []
    for tag, t in targets:
        S = real_orbit(ctx, g, t, 2 * n + 2)
        P, L = gf2.min_poly_from_bits([x & 1 for x in S])
        if L != n:
            continue
        for k in ks:
            Q = gf2.polyinv(gf2.powx(k, P), P)
            if Q is None:
                continue
            s_int = 0
            for i in range(Q.bit_length()):
                if (Q >> i) & 1:
                    s_int ^= S[i]
            if s_int:
                res.append((tag, k, s_int.to_bytes(nb, "little"), t))
    return res

def successor_word_states(ctx, g):
    """states whose successor (second successor) under the REAL step has one chosen word equal to 0 / 1 / all-ones, for every
    word position: [(tag, k, state, target)]"""
    info = GENS[g]
    wb, nwords = info["w"] // 8, info["seed"] // (info["w"] // 8)
    wt = []
    for j in range(nwords):
        for tagv, val in (("0", 0), ("1", 1), ("ones", (1 << info["w"]) - 1)):
            b = bytearray(rand_bytes(ctx.rng, info["seed"]))
            b[j * wb:(j + 1) * wb] = val.to_bytes(wb, "little")
            wt.append((f"word{j}={tagv}", bytes(b)))
    return trajectory_preimages(ctx, g, wt, (1, 2) if ctx.thorough or nwords <= 4 else (1,))

# ------------------------------------------------------------------ C01 / C04: native step
def native_cases(ctx, gens, nrand_q, nrand_t, steps_basis=3, steps_rand=24):
    cases = []
    for g in gens:
        info = GENS[g]
        nat = native(g)
        nrand = ctx.scale(nrand_q, nrand_t)
        walk = ctx.scale(8, info["seed"] * 8)
        classes = seed_classes(ctx.rng, info["seed"], nrand, nzero_walk=walk)
        if g == "SplitMix64":
            # counters that reach a special value (0, 1, -1, 2^63, PHI, 2^32) after j steps: x = v - j*PHI
            for v in (0, 1, MASK64, 1 << 63, PHI, 1 << 32, 0xffffffff):
                for j in range(0, 9):
                    classes.append(("counter-special", ((v - j * PHI) & MASK64).to_bytes(8, "little")))
        crate = "rand_xorshift" if g == "XorShiftRng" else "rand_xoshiro"
        sc = source_constant_seeds(crate, info["seed"], limit=5000)
        classes += sc if ctx.thorough else ctx.rng.sample(sc, min(len(sc), 24))
        if info["linear"]:
            sp = special_states(ctx.rng, g, k=ctx.scale(1, 4))
            classes += sp
            # … and states that *reach* such a state after k steps (guards on the new state / on a later output)
            tp = trajectory_preimages(ctx, g, ctx.rng.sample(sp, min(len(sp), ctx.scale(4, 12))), (1, 2, 3, 7))
            for tag, kk, st, t in tp:
                classes.append((f"reaches:{tag.split('_')[0]}", st))
            # … systematically: states whose SUCCESSOR (and second successor) has one chosen word equal to 0 / 1 / all-ones,
            # for every word position (a clamp, a guard or a saturation on a freshly computed state word fires exactly there)
            for tag, kk, st, t in successor_word_states(ctx, g):
                classes.append((f"reaches:{tag}", st))
        for cls, seed in classes:
            k = steps_rand if cls in ("random", "ones", "highbit", "counter-special") or cls.startswith("reaches") or cls.startswith("out=") else steps_basis
            c = [f"new 0 {g} seed {seed.hex()}", "ser 0"]
            for _ in range(k):
                c += [f"{nat} 0", "ser 0"]
            if g == "SplitMix64":
                c += ["clone 1 0", "u32 1", "ser 1", "u32 0", "u64 0", "ser 0"]
            cases.append(c)
            ctx.dist[f"{g}:{cls}"] += 1
    return cases

def tie_C01(ctx):
    cases = native_cases(ctx, XOSHIRO_FAMILY, 60, 1500)
    # stream positions reached through a large fill_bytes (bulk paths must advance by exactly the words they hand out)
    for g in XOSHIRO_FAMILY:
        nat = native(g)
        for n in ([4104, 10000] if not ctx.thorough else [4096, 4104, 8200, 10000, 65544]):
            seed = rand_bytes(ctx.rng, GENS[g]["seed"])
            if any(seed):
                cases.append([f"new 0 {g} seed {seed.hex()}", f"fill 0 {n}", "ser 0", f"{nat} 0", f"{nat} 0", "ser 0"])
                ctx.dist[f"{g}:position-after-large-fill"] += 1
    ctx.absolute("native-step(xoshiro family): from_seed, native outputs and state image after every step", cases)

def tie_C04(ctx):
    cases = native_cases(ctx, ["XorShiftRng"], 400, 8000, steps_basis=6, steps_rand=40)
    ctx.absolute("native-step(XorShiftRng)", cases)
    # a consequence of xor128 that the real code must show (theorem Extra.XorShiftDim.outputs_are_state): four consecutive
    # outputs ARE the state afterwards — checked on the real generator alone (state read through the serde image)
    rng, own = ctx.rng, []
    for _ in range(ctx.scale(40, 600)):
        own.append([f"new 0 XorShiftRng seed {pick_seed(rng, 16).hex()}"] + ["u32 0"] * rng.randrange(0, 9) + ["u32 0"] * 4 + ["ser 0"])
    for c, o in zip(own, ctx.real("XorShiftRng: the last four outputs are the state", own)):
        if o[-1] in ("unsupported", "panic"):
            continue
        want = "".join(bytes.fromhex(w)[::-1].hex() for w in o[-5:-1])
        if o[-1] != want:
            ctx.fail("xor128", "the state of XorShiftRng is not (x, y, z, w) = its last four outputs, as xor128's shift register requires", c,
                     expected=want, actual=o[-1])

# ------------------------------------------------------------------ C02 / C03: keystreams
def tie_C02(ctx):
    rng = ctx.rng
    cases = []
    seeds = []
    for pos in range(32):
        for v in ([1, 0x80, 0xff] if ctx.thorough else [rng.choice([1, 0x80, 0xff, 0x55])]):
            b = bytearray(32); b[pos] = v
            seeds.append(("byte", bytes(b)))
    seeds.append(("zero", bytes(32)))
    seeds.append(("ones", b"\xff" * 32))
    for _ in range(ctx.scale(40, 600)):
        seeds.append(("random", rand_bytes(rng, 32)))
    seeds += coincidence_seeds(rng, 32, k=ctx.scale(2, 10))
    seeds += source_constant_seeds("rand_hc", 32, limit=ctx.scale(40, 400))
    seeds += hc128_expansion_word_seeds(rng, per_pos=ctx.scale(1, 4))
    # seeds on which a small-constant addition of the key/IV expansion carries out of 32 bits (found once by
    # tools/gen_hc128_carry.py): they separate wrapping from saturating / checked arithmetic
    seeds += hc128_edge_seeds(ctx, n_carry=ctx.scale(40, 400))
    long_idx = set(rng.sample(range(len(seeds)), ctx.scale(4, 40)))
    for i, (cls, s) in enumerate(seeds):
        words = 4200 if i in long_idx else rng.choice([16, 48, 80])
        c = [f"new 0 Hc128Rng seed {s.hex()}", "u32 0", "u32 0", f"fill 0 {4 * words}", "u64 0"]
        cases.append(c)
        ctx.dist[f"hc128:{cls}:{'4cycles' if words == 4200 else 'blocks'}"] += 1
    # deep positions: more than 65536 words (64 complete table cycles; block counter beyond 2^16)
    for _ in range(ctx.scale(1, 4)):
        sd = rand_bytes(rng, 32)
        cases.append([f"new 0 Hc128Rng seed {sd.hex()}", f"fill 0 {4 * 66000}", "u32 0", f"fill 0 {4 * 3000}", "u64 0"])
        ctx.dist["hc128:deep>65536 words"] += 1
    ctx.absolute("keystream(Hc128Rng) vs model", cases)
    core_level(ctx, ["Hc128Rng"])
    if True:
        # the keystream is defined beyond 2^32 words: the generator must still deliver it (values there are not compared: the
        # model would need hours to get there; C14 runs the same history for panic-freedom)
        long_ = [["new 0 Hc128Rng seed " + "05" * 32, f"burn 0 {(1 << 34) + 8192}", "u32 0"]]
        o = ctx.real("Hc128Rng beyond 2^32 keystream words", long_)[0]
        if "panic" in o:
            ctx.fail("keystream", "Hc128Rng stops delivering keystream (panics) after 2^32 words", long_[0], expected="keystream", actual="panic")

def tie_C03(ctx):
    rng = ctx.rng
    cases = []
    # seeds whose state right after initialisation contains a numeric coincidence (two equal neighbouring words, a zero word,
    # an all-ones word, equal words 128 apart) — found once by tools/gen_isaac_coincidence.py (each event ~2^-24 per seed)
    cpath = os.path.join(VERIF, "corpus", "isaac_state_coincidence.json")
    if os.path.exists(cpath):
        for kind, lst in sorted(json.load(open(cpath)).items()):
            for e in (lst if ctx.thorough else lst[:3]):
                cases.append([f"new 0 IsaacRng seed {e['seed']}", "u32 0", f"fill 0 {4 * 600}", "u64 0"])
                ctx.dist[f"IsaacRng:init-state-{kind}"] += 1
    for g, wbytes in (("IsaacRng", 4), ("Isaac64Rng", 8)):
        nat = native(g)
        seeds = [("zero", bytes(32)), ("ones", b"\xff" * 32)]
        for k in range(32 // wbytes):
            b = bytearray(32); b[k * wbytes:(k + 1) * wbytes] = rand_bytes(rng, wbytes)
            seeds.append(("oneword", bytes(b)))
        for pos in rng.sample(range(32), ctx.scale(6, 32)):
            b = bytearray(32); b[pos] = rng.choice([1, 0x80, 0xff])
            seeds.append(("byte", bytes(b)))
        for _ in range(ctx.scale(30, 500)):
            seeds.append(("random", rand_bytes(rng, 32)))
        seeds += coincidence_seeds(rng, 32, k=ctx.scale(3, 12))
        seeds += source_constant_seeds("rand_isaac", 32, limit=ctx.scale(90, 2000))
        for cls, s in seeds:
            blocks = rng.choice([1, 3, 3, 5, 24])
            c = [f"new 0 {g} seed {s.hex()}", f"{nat} 0", f"fill 0 {blocks * 256 * wbytes}", "u32 0", "u64 0"]
            cases.append(c)
            ctx.dist[f"{g}:{cls}"] += 1
        for x in [0, 1, MASK64, 1 << 32, (1 << 32) - 1] + [rng.getrandbits(64) for _ in range(ctx.scale(20, 300))]:
            cases.append([f"new 0 {g} u64 {x:016x}", f"{nat} 0", f"fill 0 {2 * 256 * wbytes}"])
            ctx.dist[f"{g}:seed_from_u64"] += 1
    # long runs: data-dependent index coincidences (both indirections hitting the slot being written) occur about
    # once per 256 steps
    for g, wbytes in (("IsaacRng", 4), ("Isaac64Rng", 8)):
        for _ in range(ctx.scale(3, 20)):
            cases.append([f"new 0 {g} seed {rand_bytes(rng, 32).hex()}", f"fill 0 {500 * 256 * wbytes}", f"{native(g)} 0"])
            ctx.dist[f"{g}:500-blocks"] += 1
    # states that only a very long history reaches (a / b / c at their maximum), injected through the serde image: the
    # reference's `bb + (++cc)` and `cc + 1` are modulo 2^w there
    cases += isaac_counter_extreme_cases(ctx, rng)
    ctx.absolute("stream(IsaacRng, Isaac64Rng) vs model", cases)
    core_level(ctx, ["IsaacRng", "Isaac64Rng"])

# ------------------------------------------------------------------ C05: projections of one stream
def proj_tokens(ops):
    return [("f" + o.split()[1]) if o.startswith("fill") else o for o in ops]

def tie_C05(ctx):
    rng = ctx.rng
    per_gen = ctx.scale(40, 600)
    cases, meta = [], []
    for g in GENS:
        info = GENS[g]
        for i in range(per_gen):
            seed = rand_bytes(rng, info["seed"])
            # start at an arbitrary buffer index for buffered generators
            pre = []
            if "blk" in info and rng.random() < 0.8:
                pre = ["u32"] * rng.choice([0, 1, 2, info["blk"] - 2, info["blk"] - 1, rng.randrange(info["blk"])])
                if info["cls"] == "block64":
                    pre = (["u64"] * (len(pre) % info["blk"])) + (["u32"] if rng.random() < 0.5 else [])
            ops = pre + rand_ops(rng, rng.randrange(3, 14), maxfill=2600 if "blk" in info else 300)
            need = words_needed(g, ops)
            nat = native(g)
            c = [f"new 0 {g} seed {seed.hex()}", "clone 1 0"] + op_lines(0, ops)
            nops = len(ops)
            # after the history: the subject's next native word (cursor check)
            c += [f"{nat} 0"]
            twin_start = len(c)
            if g == "SplitMix64":
                for _ in range(need):
                    c += ["clone 2 1", "u32 2", "u64 1"]
            else:
                c += [f"{nat} 1"] * need
            cases.append(c)
            meta.append((g, ops, nops, twin_start, need))
            for o in ops:
                ctx.dist["op:" + (o.split()[0])] += 1
                if o.startswith("fill"):
                    n = int(o.split()[1])
                    ctx.dist[f"tail%8={n % 8}"] += 1
    # large requests (bulk fast paths): around 4096 / 8192 bytes, multiples of 8 that are not multiples of 64, odd sizes; and
    # lengths around every numeric literal that is new in the source
    big = [4095, 4096, 4097, 4104, 8200, 10000, 12345] + ([65536, 65544, 131080] if ctx.thorough else [])
    harvested = sorted({x for L in new_literals(1 << 20) for x in (L - 1, L, L + 1, L + 8, 2 * L + 8) if 0 < x <= (1 << 21)})
    for g in GENS:
        info = GENS[g]
        nat = native(g)
        lens = (big if ctx.thorough else rng.sample(big, 3)) + harvested[:40]
        for n in lens:
            pre = ["u32"] * rng.choice([0, 1, 3]) if "blk" in info else []
            ops = pre + [f"fill {n}", rng.choice(["u32", "u64"])]
            seed = rand_bytes(rng, info["seed"])
            need = words_needed(g, ops)
            c = [f"new 0 {g} seed {seed.hex()}", "clone 1 0"] + op_lines(0, ops) + [f"{nat} 0"]
            ts = len(c)
            if g == "SplitMix64":
                for _ in range(need):
                    c += ["clone 2 1", "u32 2", "u64 1"]
            else:
                c += [f"{nat} 1"] * need
            cases.append(c); meta.append((g, ops, len(ops), ts, need))
            ctx.dist["large-fill" if n in big else "harvested-literal-length"] += 1
    for g in ("Hc128Rng", "IsaacRng", "Isaac64Rng"):
        info = GENS[g]
        blk, wb = info["blk"], info["w"] // 8
        nat = native(g)
        ks = [0, 1, blk - 2, blk - 1, blk] if not ctx.thorough else list(range(0, blk + 1, max(1, blk // 32))) + [blk - 1, blk]
        for k in ks:
            for half in ([False, True] if info["cls"] == "block64" else [False]):
                for m, d in ((1, 0), (2, 0), (1, 1), (1, -1), (3, 0), (0, wb), (1, -wb)):
                    n = m * blk * wb + d
                    if n < 0:
                        continue
                    for tail in (["u32"], ["u64"], ["u32", "u32", "u64"]):
                        ops = [nat] * k + (["u32"] if half else []) + [f"fill {n}"] + tail
                        seed = rand_bytes(rng, info["seed"])
                        need = words_needed(g, ops)
                        c = [f"new 0 {g} seed {seed.hex()}", "clone 1 0"] + op_lines(0, ops) + [f"{nat} 0"]
                        ts = len(c)
                        c += [f"{nat} 1"] * need
                        cases.append(c); meta.append((g, ops, len(ops), ts, need))
                        ctx.dist[f"{g}:index={k},half={half},fill=block-multiple"] += 1
        # many whole blocks from the block edges (bulk paths with a threshold of several blocks), with and without a pending half;
        # block counts also from the literals a change introduced
        many = [4, 5, 8, 16, 33] + [L for L in new_literals(64) if L > 3][:4]
        for k in (0, blk - 1, blk):
            for half in ([False, True] if info["cls"] == "block64" else [False]):
                for m in (many if ctx.thorough else rng.sample(many[:5], 3) + many[5:]):
                    for d in ((0, wb, -wb) if ctx.thorough else (0,)):
                        for tail in (["u32"], ["u64"]):
                            ops = [nat] * k + (["u32"] if half else []) + [f"fill {m * blk * wb + d}"] + tail
                            seed = rand_bytes(rng, info["seed"])
                            need = words_needed(g, ops)
                            c = [f"new 0 {g} seed {seed.hex()}", "clone 1 0"] + op_lines(0, ops) + [f"{nat} 0"]
                            ts = len(c)
                            c += [f"{nat} 1"] * need
                            cases.append(c); meta.append((g, ops, len(ops), ts, need))
                            ctx.dist[f"{g}:fill of many whole blocks from a block edge"] += 1
    outs = ctx.real("projection(all 19 deterministic generators): history on subject, native-only twin", cases)
    # ask the executable Lean specification for the projection of the twin's *real* stream
    pcases = []
    for (g, ops, nops, ts, need), c, o in zip(meta, cases, outs):
        tw = o[ts:]
        if g == "SplitMix64":
            words = ",".join(f"{tw[3 * i + 2]}:{tw[3 * i + 1]}" for i in range(need))
        elif GENS[g]["cls"] == "direct64":
            half = GENS[g]["half"]
            words = ",".join(f"{w}:{w[:8] if half == 'upper' else w[8:]}" for w in tw)
        else:
            words = ",".join(tw)
        pcases.append([f"proj {GENS[g]['cls']} {words} " + " ".join(proj_tokens(ops))])
    pouts = run_chunks(DRIVER, pcases, chunk=200)
    for (g, ops, nops, ts, need), c, o, po in zip(meta, cases, outs, pouts):
        line = po[0]
        if " | " not in line:
            ctx.fail("projection", f"spec projection failed: {line}", c)
            continue
        vals, tail = line.split(" | ")
        exp = vals.split(" ") if vals else []
        act = o[2:2 + nops]
        ctx.traces_validated += 1
        if exp != act:
            k = next((i for i, (x, y) in enumerate(zip(exp, act)) if x != y), 0)
            ctx.fail("projection", f"{g}: op #{k} `{ops[k]}` is not the documented projection of the generator's own native stream",
                     c, expected=exp[k][:80], actual=act[k][:80])
            continue
        pos = int(tail.split("pos=")[1].split()[0])
        pending = tail.endswith("true")
        tw = o[ts:]
        nxt = o[2 + nops]
        if g == "SplitMix64":
            want = tw[3 * pos + 2]
        elif GENS[g]["cls"] == "block64" and False:
            want = tw[pos]
        else:
            want = tw[pos]
        if nxt != want:
            ctx.fail("projection", f"{g}: after the history the cursor is not at word {pos} of the native stream (a word was skipped or repeated)",
                     c, expected=want, actual=nxt)

def tie_C05_jitter(ctx):
    rng = ctx.rng
    cases, meta = [], []
    for i in range(ctx.scale(150, 2500)):
        r = rng.choice([1, 1, 2, 3])
        ops = rand_ops(rng, rng.randrange(2, 9), maxfill=40)
        ops = [o if not o.startswith("fill") else f"fill {rng.choice([0, 1, 2, 3, 4, 5, 6, 7, 8, 9, 11, 12, 13, 16, 17, 20, 23])}" for o in ops]
        need = sum(1 if o in ("u32", "u64") else int(o.split()[1]) // 8 + 1 for o in ops) + 2
        rs = good_readings(rng, 1 + 3 * (r + 2) * need + 30)
        hx = rd_hex(rs)
        c = [f"timer 0 {hx}", "jit 1 0", f"rounds 1 {r}", f"timer 2 {hx}", "jit 3 2", f"rounds 3 {r}"] + op_lines(1, ops)
        ts = len(c)
        c += ["u64 3"] * need
        cases.append(c); meta.append((ops, ts, need))
        for o in ops:
            ctx.dist["jitter-op:" + o.split()[0]] += 1
    outs = ctx.real("projection(JitterRng): history on subject, next_u64-only twin on an identical scripted timer", cases)
    pcases = [[f"proj jitter {','.join(o[ts:])} " + " ".join(proj_tokens(ops))] for (ops, ts, need), o in zip(meta, outs)]
    pouts = run_chunks(DRIVER, pcases, chunk=200)
    for (ops, ts, need), c, o, po in zip(meta, cases, outs, pouts):
        if "blocked" in o:
            ctx.dist["jitter-blocked"] += 1
            continue
        vals = po[0].split(" | ")[0]
        exp = vals.split(" ") if vals else []
        act = o[6:6 + len(ops)]
        ctx.traces_validated += 1
        if exp != act:
            k = next((i for i, (x, y) in enumerate(zip(exp, act)) if x != y), 0)
            ctx.fail("projection", f"JitterRng: op #{k} `{ops[k]}` (after {ops[:k]}) is not the documented projection of the stream of collected values",
                     c, expected=exp[k][:80], actual=act[k][:80])

def tie_C05_jitter_interrupted(ctx):
    """a call is interrupted by the timer closure unwinding mid-collection (scripted timer runs dry; the harness catches it),
    the timer is replenished and the history continues: subject and twin share the timer script and the interrupted call; then
    the subject's [u32, u32] / [fill k] must be the projections of the word the twin's next_u64 returns"""
    rng = ctx.rng
    cases, meta = [], []
    for i in range(ctx.scale(60, 600)):
        r = rng.choice([1, 2, 3])
        fresh_reads = 1 + 3 * (1 + r)
        pre = rng.choice([[], ["u64"], ["u32", "u32"], ["u32"]])
        npre = 0 if not pre else 1
        first = good_readings(rng, npre * fresh_reads)
        cut = rng.choice([0, 1, 2, 3, rng.randrange(0, fresh_reads)])
        more = [(first[-1] if first else 1 << 30) + 1000 + 77 * k * k for k in range(cut)]
        rest = rd_hex(good_readings(rng, 5 * fresh_reads + 8))
        x = rng.choice(["u32", "u32", "u64", "fill 3", "fill 8", "fill 5"])
        if pre == ["u32"] and x in ("u32", "fill 3"):
            x = "u64"               # with a half pending these do not collect at all
        after = rng.choice([["u32", "u32"], ["u32", "u32", "u32"], ["fill 4", "u32"], ["fill 3", "u64"], ["u32", "fill 2", "u32"]])
        hx = rd_hex(first + more)
        c = [f"timer 0 {hx}", "jit 1 0", f"rounds 1 {r}", f"timer 2 {hx}", "jit 3 2", f"rounds 3 {r}"]
        c += op_lines(1, pre + [x]) + op_lines(3, pre + [x]) + [f"tappend 0 {rest}", f"tappend 2 {rest}"]
        a0 = len(c)
        c += op_lines(1, after)
        ts = len(c)
        c += ["u64 3"] * 4
        cases.append(c); meta.append((pre, x, after, a0, ts))
        ctx.dist["jitter-interrupted:" + x.split()[0]] += 1
    outs = ctx.real("projection(JitterRng) after a call that was interrupted by the timer unwinding: subject vs next_u64-only twin", cases)
    pcases, keep = [], []
    for (pre, x, after, a0, ts), c, o in zip(meta, cases, outs):
        xi = 6 + len(pre)
        if o[xi] != "blocked" or o[xi + len(pre) + 1] != "blocked" or "blocked" in o[a0:] or "panic" in o:
            continue
        pcases.append([f"proj jitter {','.join(o[ts:])} " + " ".join(proj_tokens(after))]); keep.append((pre, x, after, a0, ts, c, o))
    pouts = run_chunks(DRIVER, pcases, chunk=200) if pcases else []
    for (pre, x, after, a0, ts, c, o), po in zip(keep, pouts):
        vals = po[0].split(" | ")[0]
        exp = vals.split(" ") if vals else []
        act = o[a0:a0 + len(after)]
        ctx.traces_validated += 1
        if exp != act:
            k = next((i for i, (p_, q_) in enumerate(zip(exp, act)) if p_ != q_), 0)
            ctx.fail("projection", f"JitterRng: after `{x}` was interrupted by the timer unwinding (caught by the caller), op #{k} `{after[k]}` is not the "
                     f"documented projection of the stream of collected values (a twin that suffered the same interruption and then only calls next_u64)",
                     c, expected=exp[k][:80], actual=act[k][:80])

def jitter_special_words(ctx, wants):
    """timer scripts (rounds = 1, fresh pool) whose first collected 64-bit value satisfies a linear condition — high half
    zero, low half zero, both halves equal … — found by solving over GF(2): for non-stuck measurements the collected
    value is an affine function of the two 31-bit deltas (priming + one accepted measurement).  The MODEL is the oracle
    for the affine map; every candidate is re-evaluated on the model before use."""
    rng = ctx.rng
    def script(d1, d2, t0=1 << 40):
        return [t0, 7, t0 + d1, 9, 11, t0 + d1 + d2, 13] + [t0 + d1 + d2 + 1000 * k * k + 17 * k for k in range(1, 60)]
    def evals(pairs):
        cases = [[f"timer 0 {rd_hex(script(a, b))}", "jit 1 0", "rounds 1 1", "u64 1", "calls 0"] for a, b in pairs]
        return run_chunks(DRIVER, cases)
    out = []
    for attempt in range(4):
        b1, b2 = rng.getrandbits(31) | 1, rng.getrandbits(31) | 2
        pts = [(b1, b2)] + [(b1 ^ (1 << i), b2) for i in range(31)] + [(b1, b2 ^ (1 << i)) for i in range(31)]
        res = evals(pts)
        if any(r[4] != "7" or len(r[3]) != 16 for r in res):
            continue                      # some point was stuck (consumed more readings): pick another base
        f0 = int(res[0][3], 16)
        cols = [int(r[3], 16) ^ f0 for r in res[1:]]
        for name, rows, target in wants:
            # rows: list of 64-bit masks (each a linear functional of the output); want functional(output) = target bit
            eqs = []
            for mask, tb in zip(rows, target):
                coeff = 0
                for j, c in enumerate(cols):
                    if bin(c & mask).count("1") & 1:
                        coeff |= 1 << j
                rhs = (bin(f0 & mask).count("1") & 1) ^ tb
                eqs.append((coeff, rhs))
            # Gaussian elimination over 62 unknowns
            piv = {}
            ok = True
            for coeff, rhs in eqs:
                for pbit, (pc, pr) in piv.items():
                    if (coeff >> pbit) & 1:
                        coeff ^= pc; rhs ^= pr
                if coeff == 0:
                    if rhs:
                        ok = False; break
                    continue
                pbit = coeff.bit_length() - 1
                for qb in list(piv):
                    qc, qr = piv[qb]
                    if (qc >> pbit) & 1:
                        piv[qb] = (qc ^ coeff, qr ^ rhs)
                piv[pbit] = (coeff, rhs)
            if not ok:
                continue
            for _ in range(3):
                x = rng.getrandbits(62)
                for pbit in piv:
                    x &= ~(1 << pbit)
                for pbit, (pc, pr) in piv.items():
                    val = pr ^ (bin(pc & x & ~(1 << pbit)).count("1") & 1)
                    if val:
                        x |= 1 << pbit
                d1, d2 = b1 ^ (x & ((1 << 31) - 1)), b2 ^ (x >> 31)
                if d1 == 0 or d2 == 0:
                    continue
                r = evals([(d1, d2)])[0]
                if r[4] == "7" and len(r[3]) == 16:
                    v = int(r[3], 16)
                    if all((bin(v & mask).count("1") & 1) == tb for mask, tb in zip(rows, target)):
                        out.append((name, script(d1, d2), v))
                        break
        if len(out) >= len(wants):
            break
    return out

def tie_C05_jitter_special(ctx):
    """JitterRng words with a zero high half, a zero low half, equal halves: `0 means nothing pending` style shortcuts"""
    rng = ctx.rng
    hi = [1 << (32 + i) for i in range(32)]
    lo = [1 << i for i in range(32)]
    eqh = [(1 << i) | (1 << (32 + i)) for i in range(32)]
    wants = [("high-half-zero", hi, [0] * 32), ("low-half-zero", lo, [0] * 32), ("halves-equal", eqh, [0] * 32),
             ("high-half-ones", hi, [1] * 32)]
    found = jitter_special_words(ctx, wants)
    cases, meta = [], []
    for name, rs, v in found:
        hx = rd_hex(rs)
        for ops in (["u32", "u32", "u32", "u32"], ["u32", "fill 3", "u32"], ["u32", "u64", "u32"], ["fill 4", "u32", "u32"],
                    ["u32", "fill 0", "u32", "u32"]):
            c = [f"timer 0 {hx}", "jit 1 0", "rounds 1 1", f"timer 2 {hx}", "jit 3 2", "rounds 3 1"] + op_lines(1, ops)
            ts = len(c)
            c += ["u64 3"] * 6
            cases.append(c); meta.append((ops, ts, name))
            ctx.dist[f"jitter-word:{name}"] += 1
    if not cases:
        ctx.notes.append("no special JitterRng words found this run")
        return
    outs = ctx.real("projection(JitterRng) on timers whose first collected value has a zero / all-ones / repeated half", cases)
    pcases = [[f"proj jitter {','.join(x for x in o[ts:] if x != 'blocked')} " + " ".join(proj_tokens(ops))]
              for (ops, ts, name), o in zip(meta, outs)]
    pouts = run_chunks(DRIVER, pcases, chunk=200)
    for (ops, ts, name), c, o, po in zip(meta, cases, outs, pouts):
        act = o[6:6 + len(ops)]
        if "blocked" in act:
            continue
        exp = po[0].split(" | ")[0].split(" ")
        ctx.traces_validated += 1
        if exp[:len(act)] != act:
            k = next((i for i, (x, y) in enumerate(zip(exp, act)) if x != y), 0)
            ctx.fail("projection", f"JitterRng: with a collected value whose {name.replace('-', ' ')}, op #{k} `{ops[k]}` (after {ops[:k]}) "
                     f"is not the documented projection", c, expected=exp[k][:80], actual=act[k][:80])

def tie_C05_all(ctx):
    tie_C05(ctx)
    tie_C05_jitter(ctx)
    tie_C05_jitter_special(ctx)
    tie_C05_jitter_interrupted(ctx)

PROPS = {
    "C01": dict(tie=tie_C01, absolute=True),
    "C02": dict(tie=tie_C02, absolute=True),
    "C03": dict(tie=tie_C03, absolute=True),
    "C04": dict(tie=tie_C04, absolute=True),
    "C05": dict(tie=tie_C05_all),
}

# ------------------------------------------------------------------ helpers on state images
def st_int(hexs_):
    return int.from_bytes(bytes.fromhex(hexs_), "little") if hexs_ != "-" else 0

def is_ser(cmd):
    return cmd.startswith("ser ")

def only_state(cmd):
    """mask for ties that compare state transitions only (not scrambled outputs)"""
    return cmd.startswith("u32 ") or cmd.startswith("u64 ") or cmd.startswith("fill ")

# ------------------------------------------------------------------ C06: jumps
def tie_C06(ctx):
    rng = ctx.rng
    cases, comm = [], []
    for g in JUMPERS:
        info = GENS[g]
        n, nb, nat = info["n"], info["seed"], native(g)
        basis = list(range(n)) if ctx.thorough else rng.sample(range(n), 40)
        states = [(1 << j).to_bytes(nb, "little") for j in basis]
        states += [rand_bytes(rng, nb) for _ in range(ctx.scale(24, 200))]
        states += [((1 << n) - 1).to_bytes(nb, "little")]
        states += [s_ for _, s_ in coincidence_seeds(rng, nb, k=ctx.scale(2, 8))]
        for s in states:
            cases.append([f"new 0 {g} seed {s.hex()}", "clone 1 0", "jump 0", "ser 0", "ljump 1", "ser 1",
                          f"{nat} 0", f"{nat} 1"])
            ctx.dist[f"{g}:jump+ljump"] += 1
        for _ in range(ctx.scale(6, 60)):
            s = rand_bytes(rng, nb)
            k = rng.randrange(1, 5)
            comm.append([f"new 0 {g} seed {s.hex()}", "clone 1 0", "clone 2 0", "clone 3 0",
                         "jump 0"] + [f"{nat} 0"] * k + [f"{nat} 1"] * k + ["jump 1", "eq 0 1", "ser 0", "ser 1",
                         "jump 2", "ljump 2", "ljump 3", "jump 3", "eq 2 3"])
    ctx.absolute_from_state("jump/long_jump state and following output vs model (basis + random states)", cases,
                            mask=lambda c: c.startswith("u32 ") or c.startswith("u64 "))
    h, _ = ctx.absolute_from_state("jump commutes with stepping and with long_jump", comm, mask=only_state)
    for c, o in zip(comm, h):
        for cmd, x in zip(c, o):
            if cmd.startswith("eq ") and x != "true":
                ctx.fail("jump-commute", f"{c[0].split()[2]}: jump does not commute with stepping / long_jump", c,
                         expected="true", actual=x)
    inj = []
    for g in JUMPERS:
        nb, nat = GENS[g]["seed"], native(g)
        for img in (bytes(nb), b"\xff" * nb, (1).to_bytes(nb, "little"), (1 << (8 * nb - 1)).to_bytes(nb, "little")):
            inj.append([f"de 0 {g} {img.hex()}", "clone 1 0", "clone 2 0", "jump 0", "ser 0", "ljump 1", "ser 1", f"{nat} 2", "jump 2",
                        "ser 2", f"{nat} 0", "eq 0 2"])
    h, _ = ctx.absolute("jump/long_jump from states injected through the serde image (all-zero, all-ones, extreme bits)", inj)
    for c, o in zip(inj, h):
        if o[0] == "ok" and o[-1] != "true":
            ctx.fail("jump-commute", f"{c[0].split()[2]}: jump does not commute with stepping from the injected state", c,
                     expected="true", actual=o[-1])
    preimage_C06(ctx)
    if ctx.thorough:
        falsify_C06(ctx, sample=2)

def preimage_C06(ctx):
    """states chosen by their jump IMAGE: for a structured target t (one non-zero word, words summing to zero, …) compute
    s = J^-1(T) t with real steps (J = x^(2^k) mod the minimal polynomial of the real engine, inverted modulo it) and
    check that the real jump()/long_jump() takes s to t — covers code paths that depend on the value being stored"""
    rng = ctx.rng
    for g in JUMPERS:
        info = GENS[g]
        n, nb, w = info["n"], info["seed"], info["w"]
        wb = w // 8
        nw = nb // wb
        targets = []
        for k in range(nw):
            b = bytearray(nb); b[k * wb:(k + 1) * wb] = rand_bytes(rng, wb); targets.append(bytes(b))
        extra = [s_ for _, s_ in coincidence_seeds(rng, nb, k=1)]
        targets += extra if ctx.thorough else rng.sample(extra, min(len(extra), 2))
        for t in targets:
            if not any(t):
                continue
            S = real_orbit(ctx, g, t, 2 * n + 2)
            P, L = gf2.min_poly_from_bits([x & 1 for x in S])
            if L != n:
                continue
            for op, e in (("jump", 1 << (n // 2)), ("ljump", 1 << (3 * n // 4))):
                Jinv = gf2.polyinv(gf2.powx(e, P), P)
                if Jinv is None:
                    continue
                s_int = 0
                for i in range(Jinv.bit_length()):
                    if (Jinv >> i) & 1:
                        s_int ^= S[i]
                c = [f"new 0 {g} seed {s_int.to_bytes(nb, 'little').hex()}", f"{op} 0", "ser 0"]
                o = ctx.real("jump of the pre-image of a structured target state (computed from real steps)", [c])[0]
                ctx.dist[f"{g}:preimage-target"] += 1
                if o[2] != t.hex():
                    ctx.fail("jump-vs-steps", f"{g}.{'long_jump' if op == 'ljump' else 'jump'}() does not take this state to the state that "
                             f"2^{(n//2) if op=='jump' else (3*n//4)} of its own steps reach (target has one non-zero word / a numeric coincidence)",
                             c, expected=t.hex(), actual=o[2])

def real_orbit(ctx, g, seed, steps):
    nat = native(g)
    c = [f"new 0 {g} seed {seed.hex()}", "ser 0"]
    for _ in range(steps):
        c += [f"{nat} 0", "ser 0"]
    o = ctx.real(f"orbit of the real {g} step (state image after every step)", [c])[0]
    return [st_int(x) for cmd, x in zip(c, o) if is_ser(cmd)]

def falsify_C06(ctx, sample=1, gens=None):
    """Black-box: recover the minimal polynomial P of the real step by Berlekamp–Massey, compute
    x^(2^(n/2)) and x^(2^(3n/4)) mod P, evaluate them on a state with n real steps and compare
    with the real jump()/long_jump().  States: the ones on which model and code disagreed (if any), then random ones."""
    rng = ctx.rng
    suspects = collections.defaultdict(list)
    for d in ctx.disagreements:
        c0 = d["case"][0].split() if d.get("case") else []
        if len(c0) == 5 and c0[0] == "new" and c0[3] == "seed" and c0[2] in JUMPERS and len(suspects[c0[2]]) < 3:
            suspects[c0[2]].append(bytes.fromhex(c0[4]))
    for g in (gens or JUMPERS):
        info = GENS[g]
        n, nb = info["n"], info["seed"]
        for seed in suspects.get(g, []) + [rand_bytes(rng, nb) for _ in range(sample)]:
            if not any(seed):
                continue
            S = real_orbit(ctx, g, seed, 2 * n + 2)
            bits = [s & 1 for s in S]
            P, L = gf2.min_poly_from_bits(bits)
            for op, e in (("jump", 1 << (n // 2)), ("ljump", 1 << (3 * n // 4))):
                J = gf2.powx(e, P)
                exp = 0
                for i in range(J.bit_length()):
                    if (J >> i) & 1:
                        exp ^= S[i]
                c = [f"new 0 {g} seed {seed.hex()}", f"{op} 0", "ser 0"]
                o = ctx.real("real jump vs x^(2^k) mod P evaluated with real steps", [c])[0]
                act = st_int(o[2])
                ctx.dist[f"{g}:BM-degree={L}"] += 1
                if act != exp:
                    ctx.fail("jump-vs-steps", f"{g}.{ 'long_jump' if op == 'ljump' else 'jump'}() does not equal 2^{(n//2) if op=='jump' else (3*n//4)} "
                             f"of its own steps (expected state computed from {n} real steps and the minimal polynomial of the real engine, degree {L})",
                             c, expected=exp.to_bytes(nb, "little").hex(), actual=o[2])

# ------------------------------------------------------------------ C07: full period
def tie_C07(ctx):
    rng = ctx.rng
    cases = []
    for g in LINEAR:
        info = GENS[g]
        n, nb, nat = info["n"], info["seed"], native(g)
        for j in range(n):
            cases.append([f"new 0 {g} seed {(1 << j).to_bytes(nb, 'little').hex()}", f"{nat} 0", "ser 0"])
            ctx.dist[f"{g}:basis"] += 1
        for _ in range(ctx.scale(30, 400)):
            cases.append([f"new 0 {g} seed {rand_bytes(rng, nb).hex()}", f"{nat} 0", "ser 0", f"{nat} 0", "ser 0"])
        # states whose successor has a word equal to 0 / 1 / all-ones (every word position): where a clamp or guard on a freshly
        # computed state word fires — there the real step stops being the linear bijection it is on every basis state
        for tag, kk, st, t in successor_word_states(ctx, g):
            cases.append([f"new 0 {g} seed {st.hex()}", f"{nat} 0", "ser 0", f"{nat} 0", "ser 0", f"{nat} 0", "ser 0"])
            ctx.dist[f"{g}:successor-{tag.split('=')[1]}-word"] += 1
    h0, m0 = ctx.absolute_from_state("state transition on all n basis states of every linear engine (+ random states) vs model", cases,
                                     mask=only_state)
    # where the real step leaves the engine's law: the state it reaches instead has a predecessor under the law (computed from the
    # real engine's own minimal polynomial) — if the real step maps that one there too, two states merge: a failing input of C07
    done = 0
    for c, ho, mo in zip(cases, h0, m0):
        if done >= 3 or len(ho) < 3 or len(mo) < 3 or ho[2] == mo[2] or ho[2] in ("panic", "unsupported"):
            continue
        g = c[0].split()[2]
        try:
            tgt = bytes.fromhex(ho[2])
            pre = trajectory_preimages(ctx, g, [("reached", tgt)], (1,))
        except Exception:
            pre = []
        for tag, kk, p_, t in pre:
            if p_.hex() == c[0].split()[4]:
                continue
            cc = [c[0], c[1], "ser 0", f"new 1 {g} seed {p_.hex()}", c[1].replace(" 0", " 1"), "ser 1"]
            o = ctx.real("second predecessor of a state reached off the engine's law", [cc])[0]
            done += 1
            if o[2] == o[5] and o[2] not in ("panic", "unsupported"):
                ctx.fail("merge", f"{g}: two different non-zero states step to the same state — the transition is not a bijection, the "
                         f"non-zero states are not one cycle", cc, expected="different successors", actual=o[2])
    # every call kind is a whole number of native steps: state after `op` == state of a twin after k native steps
    adv, ameta = [], []
    for g in LINEAR:
        info = GENS[g]
        nb, nat, w = info["seed"], native(g), info["w"]
        for op, k in [("u32", 1), ("u64", 2 if w == 32 else 1)] + \
                     [(f"fill {n}", (2 * (n // 8) + (2 if n % 8 > 4 else 1 if n % 8 else 0)) if w == 32 else (n // 8 + (1 if n % 8 else 0)))
                      for n in (1, 4, 5, 8, 9, 12, 16, 24, 31, 64, 100)]:
            for _ in range(ctx.scale(2, 20)):
                seed = pick_seed(rng, nb)
                if not any(seed):
                    continue
                adv.append([f"new 0 {g} seed {seed.hex()}", "clone 1 0"] + op_lines(0, [op]) + ["ser 0"] + [f"{nat} 1"] * k + ["ser 1"])
                ameta.append((g, op, k))
    h2, _ = ctx.absolute_from_state("state transition through next_u32 / next_u64 / fill_bytes(n) equals k native steps (state images) vs model", adv,
                                    mask=only_state)
    for (g, op, k), c, o in zip(ameta, adv, h2):
        if o[3] != o[-1]:
            ctx.fail("transition", f"{g}: `{op}` does not advance the state by {k} steps of the engine (another state transition is in use)",
                     c, expected=o[-1], actual=o[3])
    # GF(2)-linearity of the real step on random triples
    tri, meta = [], []
    for g in LINEAR:
        nb, nat = GENS[g]["seed"], native(g)
        for _ in range(ctx.scale(12, 100)):
            a, b = rand_bytes(rng, nb), rand_bytes(rng, nb)
            x = bytes(p ^ q for p, q in zip(a, b))
            if not any(x) or not any(a) or not any(b):
                continue
            tri.append([f"new 0 {g} seed {a.hex()}", f"{nat} 0", "ser 0", f"new 1 {g} seed {b.hex()}", f"{nat} 1", "ser 1",
                        f"new 2 {g} seed {x.hex()}", f"{nat} 2", "ser 2"])
            meta.append(g)
    outs = ctx.real("linearity of the real step: step(a^b) = step(a)^step(b)", tri)
    for g, c, o in zip(meta, tri, outs):
        if st_int(o[2]) ^ st_int(o[5]) != st_int(o[8]):
            ctx.fail("linearity", f"{g}: the real step is not GF(2)-linear", c)
    # "a generator seeded through the API never reaches the all-zero state": every seeding route, special arguments
    sd, specials = [], [0, (-PHI) & MASK64, (-2 * PHI) & MASK64, (-3 * PHI) & MASK64, 1, MASK64, PHI]
    for g in LINEAR:
        nb = GENS[g]["seed"]
        sd.append([f"new 0 {g} seed {'00' * nb}", "ser 0"])
        for x in specials + [rng.getrandbits(64) for _ in range(ctx.scale(4, 60))]:
            sd.append([f"new 0 {g} u64 {x:016x}", "ser 0"])
        for k in range(0, 3):
            for how in ("rng", "try"):
                sd.append([f"src 1 z{nb * k}:{rand_bytes(rng, 2 * nb).hex()}", f"new 0 {g} {how} 1", "ser 0"])
    outs = ctx.real("no seeding route (from_seed(0), seed_from_u64 specials, from_rng after zero blocks) yields the zero state", sd)
    for c, o in zip(sd, outs):
        img = o[-1]
        if o[-2] == "ok" and img not in ("unsupported", "panic", "-") and st_int(img) == 0:
            ctx.fail("zero-state", f"{c[-2].split()[2]}: `{c[-2][:60]}` produced the all-zero state (a fixed point: cycle of length 1)", c,
                     expected="non-zero state", actual=img)
    xorshift_zero_runs(ctx, "XorShiftRng from_rng/try_from_rng after long runs of all-zero blocks: never the zero state")
    if ctx.thorough:
        falsify_C07(ctx)

def falsify_C07(ctx, gens=None):
    """extract the real transition matrix from the basis images; singular -> a non-zero state that
    steps to zero; otherwise minimal polynomial by Berlekamp–Massey and a primitivity test; a small
    factor gives a short cycle that is replayed on the real code."""
    rng = ctx.rng
    for g in (gens or LINEAR):
        info = GENS[g]
        n, nb, nat = info["n"], info["seed"], native(g)
        cases = [[f"new 0 {g} seed {(1 << j).to_bytes(nb, 'little').hex()}", f"{nat} 0", "ser 0"] for j in range(n)]
        outs = ctx.real("basis images of the real step", cases)
        cols = [st_int(o[2]) for o in outs]
        rank, ker = gf2.rank_and_kernel(cols, n)
        if ker is not None:
            seed = ker.to_bytes(nb, "little")
            c = [f"new 0 {g} seed {seed.hex()}", f"{nat} 0", "ser 0"]
            o = ctx.real("kernel vector of the real step", [c])[0]
            ctx.fail("not-bijective", f"{g}: the step is not a bijection (rank {rank} < {n}): this non-zero state steps to the all-zero state",
                     c, expected="non-zero state", actual=o[2])
            continue
        seed = rand_bytes(rng, nb)
        S = real_orbit(ctx, g, seed, 2 * n + 2)
        P, L = gf2.min_poly_from_bits([s & 1 for s in S])
        ok, why = gf2.is_primitive(P, n) if L == n else (False, f"minimal polynomial of a random orbit has degree {L} < {n}")
        ctx.dist[f"{g}:{why}"] += 1
        if ok:
            continue
        # look for a short cycle
        found = False
        for d, f in gf2.small_factors(P, 20):
            q = gf2.polydiv(P, f)
            w = 0
            for i in range(q.bit_length()):
                if (q >> i) & 1:
                    w ^= S[i]
            if w == 0:
                continue
            bound = (1 << d) * gf2.deg(f) // d if d else 1
            c = [f"new 0 {g} seed {w.to_bytes(nb, 'little').hex()}", f"cycle 0 {min(1 << 21, (1 << d))}"]
            o = ctx.real("short cycle of the real step", [c])[0]
            if o[1].isdigit():
                ctx.fail("short-cycle", f"{g}: non-zero state on a cycle of length {o[1]} < 2^{n}-1 ({why})", c,
                         expected=f"period 2^{n}-1", actual=o[1])
                found = True
                break
        if not found:
            ctx.fail("not-primitive", f"{g}: characteristic polynomial of the real step is not primitive: {why} "
                     f"(P = {P:#x}); algebraic witness only", [f"new 0 {g} seed {seed.hex()}"], expected="primitive", actual=why)

# ------------------------------------------------------------------ C08: zero seeds
def tie_C08(ctx):
    rng = ctx.rng
    cases = []
    fam14 = [g for g in XOSHIRO_FAMILY if g != "SplitMix64"]
    for g in fam14:
        nb = GENS[g]["seed"]
        z = "00" * nb
        cases.append([f"new 0 {g} seed {z}", "ser 0", f"new 1 {g} u64 {0:016x}", "ser 1", "eq 0 1", f"{native(g)} 0"])
    cases.append(["new 0 XorShiftRng seed " + "00" * 16, "ser 0", "u32 0"])
    h, _ = ctx.absolute("all-zero seed of every size: from_seed vs seed_from_u64(0) / 0x0BAD5EED", cases)
    for c, o in zip(cases, h):
        g = c[0].split()[2]
        if st_int(o[1]) == 0:
            ctx.fail("zero-state", f"{g}::from_seed(all-zero) returns the all-zero state", c, expected="non-zero", actual=o[1])
        if g == "XorShiftRng":
            if o[1] != "ed5ead0b" * 4:
                ctx.fail("zero-remap", "XorShiftRng::from_seed(0) is not four words 0x0BAD5EED", c, expected="ed5ead0b" * 4, actual=o[1])
        elif o[4] != "true" or o[1] != o[3]:
            ctx.fail("zero-remap", f"{g}::from_seed(all-zero) differs from seed_from_u64(0)", c, expected=o[3], actual=o[1])
    # verbatim use of non-zero seeds (hence injective)
    verb = []
    for g in LINEAR:
        nb = GENS[g]["seed"]
        for cls, s in seed_classes(rng, nb, ctx.scale(20, 300), all_bits=ctx.thorough):
            verb.append([f"new 0 {g} seed {s.hex()}", "ser 0"])
    h, _ = ctx.absolute("non-zero seeds are used verbatim", verb)
    for c, o in zip(verb, h):
        if o[1] != c[0].split()[4]:
            ctx.fail("verbatim", f"{c[0].split()[2]}: state is not the little-endian words of the non-zero seed", c,
                     expected=c[0].split()[4], actual=o[1])
    # seed_from_u64 for many x, including the ones whose first SplitMix64 output is zero
    u = []
    specials = [0, (-PHI) & MASK64, (-2 * PHI) & MASK64, 1, MASK64, PHI]
    for g in LINEAR:
        for x in specials + [rng.getrandbits(64) for _ in range(ctx.scale(20, 400))]:
            u.append([f"new 0 {g} u64 {x:016x}", "ser 0"])
    h, _ = ctx.absolute("seed_from_u64(x) never yields the zero state", u)
    for c, o in zip(u, h):
        if st_int(o[1]) == 0 and o[0] == "ok":
            ctx.fail("zero-state", f"{c[0].split()[2]}::seed_from_u64({c[0].split()[4]}) is the all-zero state", c)
    # from_rng / try_from_rng on sources with leading all-zero blocks
    r = []
    for g in LINEAR:
        nb = GENS[g]["seed"]
        for k in range(0, 4):
            for how in ("rng", "try"):
                tail = rand_bytes(rng, 2 * nb)
                body = bytes(nb * k) + tail
                r.append([f"src 1 {body.hex()}", f"new 0 {g} {how} 1", "ser 0", "pos 1", f"{native(g)} 0"])
                ctx.dist[f"zero-blocks={k}"] += 1
    for g in LINEAR:
        nb = GENS[g]["seed"]
        for cls, blk_ in coincidence_seeds(rng, nb, k=ctx.scale(1, 6)):
            for how in ("rng", "try"):
                r.append([f"src 1 {(blk_ + rand_bytes(rng, 2 * nb)).hex()}", f"new 0 {g} {how} 1", "ser 0", "pos 1", f"{native(g)} 0"])
                ctx.dist["first-block:" + cls.split("_")[0]] += 1
    xorshift_zero_runs(ctx, "XorShiftRng from_rng/try_from_rng: long runs of all-zero blocks (redraw, no preset, no zero state)")
    h, _ = ctx.absolute("from_rng/try_from_rng on sources with k leading all-zero blocks", r)
    for c, o in zip(r, h):
        g = c[1].split()[2]
        nb = GENS[g]["seed"]
        if o[1] == "ok" and st_int(o[2]) == 0:
            ctx.fail("zero-state", f"{g}::{'try_from_rng' if ' try ' in c[1] else 'from_rng'} returned the all-zero state", c)
        if g == "XorShiftRng" and o[1] == "ok":
            body = bytes.fromhex(c[0].split()[2])
            k = 0
            while body[16 * k:16 * k + 16] == bytes(16) and 16 * k + 16 <= len(body):
                k += 1
            want = body[16 * k:16 * k + 16].hex()
            if o[2] != want or o[3] != str(16 * (k + 1)):
                ctx.fail("redraw", "XorShiftRng: from_rng does not return the first non-zero block / consumes wrong amount", c,
                         expected=f"{want} pos={16*(k+1)}", actual=f"{o[2]} pos={o[3]}")


# ------------------------------------------------------------------ XorShiftRng redraw loop: long runs of all-zero blocks
ZERO_RUNS_QUICK = [4, 7, 8, 9, 15, 16, 17, 63, 64, 65, 127, 128, 129, 255, 256, 257, 1000]
ZERO_RUNS_THOROUGH = [1023, 1024, 1025, 4095, 4096, 4097, 65535, 65536, 65537, 100000]

def xorshift_zero_runs(ctx, family, fail_prop=None):
    """XorShiftRng::from_rng / try_from_rng on sources that deliver k all-zero 16-byte blocks first (k up to the
    u8/u16 boundaries and beyond): the generator must be built from the first non-zero block, the source advanced by
    16(k+1) bytes, never the all-zero state, never a preset; a source failing at call j <= k must surface as that error.
    Property-level oracle on the real code (the redraw rule of C08/C09) + comparison with the model."""
    rng = ctx.rng
    ks = ZERO_RUNS_QUICK + (ZERO_RUNS_THOROUGH if ctx.thorough else [rng.choice(ZERO_RUNS_THOROUGH[:6])])
    ks += sorted({x for L in new_literals(1 << 21) for x in (L - 1, L, L + 1) if x > 3})[:30]      # bounds a change introduced
    cases = []
    for k in ks:
        blk = rand_bytes(rng, 16)
        while not any(blk):
            blk = rand_bytes(rng, 16)
        tail = rand_bytes(rng, 24)
        for how in ("rng", "try"):
            cases.append((k, blk, None, [f"src 1 z{16 * k}:{(blk + tail).hex()}", f"new 0 XorShiftRng {how} 1", "ser 0", "pos 1", "u32 0"]))
        for j in sorted({k, max(0, k - 1), k // 2}):
            cases.append((k, blk, j, [f"src 1 z{16 * k}:{(blk + tail).hex()} {j}", "new 0 XorShiftRng try 1", "ser 0", "pos 1"]))
        ctx.dist[f"zero-run={k}"] += 1
    scripts = [c[3] for c in cases]
    h, _ = ctx.absolute(family, scripts)
    for (k, blk, j, c), o in zip(cases, h):
        if j is None:
            if o[1] != "ok" or o[2] != blk.hex() or o[3] != str(16 * (k + 1)):
                what = "the all-zero state" if o[1] == "ok" and st_int(o[2]) == 0 else "not the first non-zero block / wrong amount consumed"
                ctx.fail("redraw", f"XorShiftRng::{'try_from_rng' if ' try ' in c[1] else 'from_rng'} after {k} all-zero blocks: {what}",
                         c, expected=f"ok {blk.hex()} pos={16*(k+1)}", actual=f"{o[1]} {o[2]} pos={o[3]}")
        else:
            if o[1] != f"err {1000 + j}":
                ctx.fail("redraw-error", f"XorShiftRng::try_from_rng: source fails at call {j} (after {j} all-zero blocks) but the "
                         f"result is `{o[1]}`", c, expected=f"err {1000 + j}", actual=o[1])

# ------------------------------------------------------------------ C09: seeding routes agree
def pcg32_seed(x, n):
    MUL, INC = 6364136223846793005, 11634580027462260723
    out = b""
    while len(out) < n:
        x = (x * MUL + INC) & MASK64
        xs = (((x >> 18) ^ x) >> 27) & 0xffffffff
        rot = x >> 59
        v = ((xs >> rot) | (xs << ((32 - rot) & 31))) & 0xffffffff if rot else xs
        out += v.to_bytes(4, "little")
    return out[:n]

def tie_C09(ctx):
    rng = ctx.rng
    xs = [0, 1, MASK64, (-PHI) & MASK64, 1 << 63, 0xffffffff, 1 << 32] + [rng.getrandbits(64) for _ in range(ctx.scale(12, 200))]
    # phase 1: the documented expansion computed by the real SplitMix64 (self-relative)
    fam14 = [g for g in XOSHIRO_FAMILY if g != "SplitMix64"]
    p1 = [[f"new 1 SplitMix64 u64 {x:016x}", "fill 1 64"] for x in xs]
    o1 = ctx.real("SplitMix64 expansion of x (real)", p1)
    cases = []
    for x, o in zip(xs, o1):
        stream = bytes.fromhex(o[1])
        for g in fam14:
            nb = GENS[g]["seed"]
            exp = stream[:nb]
            c = [f"new 0 {g} u64 {x:016x}", "ser 0", f"new 2 {g} seed {exp.hex()}", "eq 0 2"]
            cases.append(c)
        for g, nb in (("XorShiftRng", 16), ("Hc128Rng", 32)):
            exp = pcg32_seed(x, nb)
            cases.append([f"new 0 {g} u64 {x:016x}", f"new 2 {g} seed {exp.hex()}", "eq 0 2", "u32 0", "u32 2", "fill 0 70"])
        for g in ("IsaacRng", "Isaac64Rng"):
            cases.append([f"new 0 {g} u64 {x:016x}", f"{native(g)} 0", "fill 0 1030"])
    # for the types that have from_seed as an independent reference the oracle is real-vs-real (eq); the model is the
    # reference only where no other exists (ISAAC's one-pass seed_from_u64)
    h, _ = ctx.absolute("seed_from_u64(x) vs model and vs from_seed(documented expansion)", cases,
                        mask=lambda c_: c_.startswith("ser ") or c_.startswith("u32 ") or c_.startswith("u64 ") or c_.startswith("fill "))
    isa = [c for c in cases if "Isaac" in c[0]]
    ctx.absolute("IsaacRng/Isaac64Rng seed_from_u64(x): key layout and single pass vs model", isa)
    for c, o in zip(cases, h):
        for cmd, v in zip(c, o):
            if cmd.startswith("eq ") and v != "true":
                ctx.fail("seed_from_u64", f"{c[0].split()[2]}::seed_from_u64({c[0].split()[4]}) != from_seed(documented expansion)", c,
                         expected="true", actual=v)
    # from_rng / try_from_rng: exactly the bytes delivered, source advanced by exactly that much
    need = {g: GENS[g]["seed"] for g in GENS}
    need["IsaacRng"], need["Isaac64Rng"] = 1024, 2048
    fr = []
    for g in GENS:
        nb = need[g]
        for rep in range(ctx.scale(3, 25)):
            body = rand_bytes(rng, nb + 24)
            if g == "XorShiftRng" and rep % 2:
                body = bytes(16) + body
            for how in ("rng", "try"):
                c = [f"src 1 {body.hex()}", f"new 0 {g} {how} 1", "pos 1"]
                if g not in ("IsaacRng", "Isaac64Rng") and g != "XorShiftRng":
                    c += [f"new 2 {g} seed {body[:nb].hex()}", "eq 0 2"]
                c += [f"{native(g)} 0", "fill 0 33"]
                fr.append(c)
            if rep == 0:
                for cls_, blk_ in coincidence_seeds(rng, nb if g not in ("IsaacRng", "Isaac64Rng") else 32, k=1)[:6]:
                    body2 = (blk_ + rand_bytes(rng, nb + 24))
                    for how in ("rng", "try"):
                        c = [f"src 1 {body2.hex()}", f"new 0 {g} {how} 1", "pos 1"]
                        if g not in ("IsaacRng", "Isaac64Rng"):
                            c += [f"new 2 {g} seed {body2[:nb].hex()}", "eq 0 2"]
                        c += [f"{native(g)} 0", "fill 0 33"]
                        fr.append(c)
            # failing sources: at call 0, and (XorShift redraw) at call 1
            for fail_at in (0, 1):
                b2 = (bytes(16) + body) if g == "XorShiftRng" else body
                fr.append([f"src 1 {b2.hex()} {fail_at}", f"new 0 {g} try 1", "pos 1", f"{native(g)} 0"])
                ctx.dist[f"fail_at={fail_at}"] += 1
            # a real generator as the source: afterwards the source is advanced by exactly `nb` bytes
            sg = rng.choice(["Xoshiro256PlusPlus", "IsaacRng", "Hc128Rng", "SplitMix64", "Isaac64Rng", "XorShiftRng"])
            sseed = rand_bytes(rng, GENS[sg]["seed"])
            fr.append([f"new 1 {sg} seed {sseed.hex()}", "clone 3 1", f"new 0 {g} rng 1", f"fill 3 {nb}", "u64 1", "u64 3",
                       f"{native(g)} 0"])
    xorshift_zero_runs(ctx, "XorShiftRng from_rng/try_from_rng: long runs of all-zero blocks, errors after k redraws")
    # values produced afterwards belong to C01-C05; here: ok/err, bytes consumed, == with from_seed(bytes); the model is
    # the value reference only for ISAAC (1024/2048-byte state, two passes: no from_seed equivalent exists)
    h, _ = ctx.absolute("from_rng / try_from_rng: bytes consumed, result, error propagation vs model", fr,
                        mask=lambda c_: c_.startswith("u32 ") or c_.startswith("u64 ") or c_.startswith("fill "))
    ctx.absolute("IsaacRng/Isaac64Rng from_rng / try_from_rng: full-state seeding, two passes vs model",
                 [c for c in fr if "Isaac" in c[1] and c[0].startswith("src")])
    for c, o in zip(fr, h):
        g = c[1].split()[2] if c[1].startswith("new") else c[2].split()[2]
        if c[0].startswith("src") and len(c[0].split()) == 3:
            if o[1] != "ok":
                ctx.fail("from_rng", f"{g}: construction from a non-failing source did not succeed", c, expected="ok", actual=o[1])
            for cmd, v in zip(c, o):
                if cmd.startswith("eq ") and v != "true":
                    ctx.fail("from_rng", f"{g}: from_rng(src) != from_seed(bytes delivered by src)", c, expected="true", actual=v)
            nb = need[g]
            body = bytes.fromhex(c[0].split()[2])
            exp = nb + (16 if g == "XorShiftRng" and body[:16] == bytes(16) else 0)
            if o[2] != str(exp):
                ctx.fail("from_rng", f"{g}: source advanced by {o[2]} bytes instead of {exp}", c, expected=str(exp), actual=o[2])
        elif c[0].startswith("src"):
            fail_at = int(c[0].split()[3])
            reaches = fail_at == 0 or g == "XorShiftRng"
            if reaches and not o[1].startswith("err "):
                ctx.fail("try_from_rng", f"{g}::try_from_rng returned `{o[1]}` although the source failed at call {fail_at}", c,
                         expected=f"err {1000 + fail_at}", actual=o[1])
            if reaches and o[3] != "unsupported":
                ctx.fail("try_from_rng", f"{g}::try_from_rng produced a generator although the source failed", c)
        else:
            if o[4] != o[5]:
                ctx.fail("from_rng", f"{g}: from_rng leaves a generator source advanced by a different amount than {need[g]} bytes", c,
                         expected=o[5], actual=o[4])

PROPS.update({
    "C06": dict(tie=tie_C06, falsifier=lambda ctx: falsify_C06(ctx)),
    "C07": dict(tie=tie_C07, falsifier=lambda ctx: falsify_C07(ctx)),
    "C08": dict(tie=tie_C08),
    "C09": dict(tie=tie_C09),
})

# ------------------------------------------------------------------ C10: clone / ==
REAL_EQ = [g for g in GENS if g not in ("IsaacRng", "Isaac64Rng")]

def history(rng, g, k):
    ops = rand_ops(rng, k, maxfill=40 if "blk" not in GENS[g] else 1100)
    if GENS[g]["jump"] and rng.random() < 0.3:
        ops.insert(rng.randrange(len(ops) + 1), rng.choice(["jump", "ljump"]))
    return ops

def tie_C10(ctx):
    rng = ctx.rng
    cases, meta = [], []
    for g in GENS:
        info = GENS[g]
        for i in range(ctx.scale(24, 300)):
            seed = pick_seed(rng, info["seed"])
            pre = history(rng, g, rng.randrange(0, 6))
            if "blk" in info:
                pre = ["u32"] * rng.randrange(0, info["blk"] + 2) + pre
                if i % 6 == 0:
                    pre = ["u32"] * rng.choice([info["blk"] - 1, info["blk"], 1, 0])
            cont = history(rng, g, rng.randrange(2, 7))
            kind = i % 4
            if kind == 0:           # clone mid-history
                c = [f"new 0 {g} seed {seed.hex()}"] + op_lines(0, pre) + ["clone 1 0", "eq 0 1"]
            elif kind == 1:         # clone_from into a used generator of the same type (its buffer / index / half flag are stale)
                dpre = history(rng, g, rng.randrange(0, 4))
                if "blk" in info:
                    dpre = ["u32"] * rng.choice([0, 1, info["blk"] - 1, info["blk"], 2 * info["blk"] - 1]) + dpre + (["u32"] if i % 8 == 1 else [])
                c = [f"new 0 {g} seed {seed.hex()}"] + op_lines(0, pre) + [f"new 1 {g} seed {pick_seed(rng, info['seed']).hex()}"] + \
                    op_lines(1, dpre) + ["clonefrom 1 0", "eq 0 1"]
            elif kind == 2:         # same seed, same history
                c = [f"new 0 {g} seed {seed.hex()}", f"new 1 {g} seed {seed.hex()}"] + \
                    [l for o in pre for l in op_lines(0, [o]) + op_lines(1, [o])] + ["eq 0 1"]
            else:                   # near miss: one extra op, different op kinds (same position, different half flag), or one seed bit
                if i % 8 == 3:
                    a, b = rng.choice([("u64", "u32"), ("u32", "u64"), ("fill 8", "u32"), ("fill 4", "u32")])
                    c = [f"new 0 {g} seed {seed.hex()}"] + op_lines(0, pre) + ["clone 1 0"] + op_lines(0, [a]) + op_lines(1, [b]) + ["eq 0 1"]
                elif rng.random() < 0.5:
                    c = [f"new 0 {g} seed {seed.hex()}"] + op_lines(0, pre) + ["clone 1 0"] + \
                        op_lines(1, [rng.choice(["u32", "u64"])]) + ["eq 0 1"]
                else:
                    s2 = bytearray(seed); s2[rng.randrange(len(s2))] ^= 1 << rng.randrange(8)
                    c = [f"new 0 {g} seed {seed.hex()}", f"new 1 {g} seed {bytes(s2).hex()}"] + \
                        [l for o in pre for l in op_lines(0, [o]) + op_lines(1, [o])] + ["eq 0 1"]
            eq_at = len(c) - 1
            for o in cont:
                c += op_lines(0, [o]) + op_lines(1, [o])
            c += ["eq 0 1"]
            if g not in REAL_EQ:
                # IsaacRng / Isaac64Rng have no `==` of their own (the harness' `eq` compares their cores): `eqw` is "unsupported"
                # unless the type gains a PartialEq, in which case it must be a congruence like any other
                c = [("eqw 0 1" if l == "eq 0 1" else l) for l in c]
            cases.append(c)
            meta.append((g, kind, eq_at))
            ctx.dist[f"pair:{['clone','clone_from','same-history','near-miss'][kind]}"] += 1
    for g in ("Hc128Rng", "IsaacRng", "Isaac64Rng"):
        info = GENS[g]
        blk, nat = info["blk"], native(g)
        for k in [0, 1, blk - 1, blk, blk + 1, 2 * blk - 1, 2 * blk]:
            for half in ([False, True] if info["cls"] == "block64" else [False]):
                seed = rand_bytes(rng, info["seed"])
                pre = [nat] * k + (["u32"] if half else [])
                c = [f"new 0 {g} seed {seed.hex()}"] + op_lines(0, pre) + ["clone 1 0", "eq 0 1"]
                eq_at = len(c) - 1
                for o in ["u32", "u32", "u64", "fill 5", "u32"]:
                    c += op_lines(0, [o]) + op_lines(1, [o])
                c += ["eq 0 1"]
                cases.append(c); meta.append((g, 0, eq_at))
                ctx.dist[f"{g}:clone@index={k},half={half}"] += 1
    # Hc128Rng at two read positions of the same block
    for _ in range(ctx.scale(10, 100)):
        seed = rand_bytes(rng, 32)
        k = rng.randrange(1, 15)
        c = [f"new 0 Hc128Rng seed {seed.hex()}"] + ["u32 0"] * k + ["clone 1 0", "u32 1", "eq 0 1", "u32 0", "eq 0 1"]
        cases.append(c); meta.append(("Hc128Rng", 9, len(c) - 3))
    # pairs that differ in exactly ONE component of what == looks at: other seed at the same position, same seed a whole number
    # of blocks apart (same index, other core), same core other index (above)
    for g in REAL_EQ:
        info = GENS[g]
        for _ in range(ctx.scale(6, 60)):
            s1, s2 = rand_bytes(rng, info["seed"]), rand_bytes(rng, info["seed"])
            k = rng.randrange(0, 20)
            nat = native(g)
            c = [f"new 0 {g} seed {s1.hex()}", f"new 1 {g} seed {s2.hex()}"] + [f"{nat} 0", f"{nat} 1"] * k + ["eq 0 1"]
            cases.append(c); meta.append((g, 9, len(c) - 1))
            if "blk" in info:
                c = [f"new 0 {g} seed {s1.hex()}", "clone 1 0"] + [f"{nat} 0", f"{nat} 1"] * k + [f"fill 1 {info['blk'] * info['w'] // 8}", "eq 0 1"]
                cases.append(c); meta.append((g, 9, len(c) - 1))
    # C10 is about clone / == and equality of the two futures of the REAL generators; values belong to C01-C05
    h = ctx.real("clone / == pairs with identical continuations (real vs real)", cases)
    ctx.traces_validated += len(cases)
    for (g, kind, eq_at), c, o in zip(meta, cases, h):
        inc = next((i for i, v in enumerate(o) if v.startswith("inconsistent")), None)
        if inc is not None:
            # the harness evaluates the whole PartialEq surface: a == b, a != b, b == a, b != a, &a != &b
            ctx.fail("eq-surface", f"{g}: `!=` / `==` of the generator type contradict each other (PartialEq::ne or asymmetric eq): neither "
                     f"`a == b` nor `a != b` tells whether the futures coincide", c, expected="a != b is !(a == b), symmetric", actual=o[inc])
            continue
        if kind == 9:
            if o[eq_at] != "false":
                ctx.fail("eq-index", f"two {g} that differ in seed, block or read position compare equal", c,
                         expected="false", actual=o[eq_at])
            continue
        e0 = o[eq_at]
        cont_pairs = [(o[i], o[i + 1]) for i in range(eq_at + 1, len(c) - 1, 2)]
        same = all(x == y for x, y in cont_pairs)
        if e0 == "true" and g not in REAL_EQ:
            ctx.dist[f"{g}: == available"] += 1
        if kind == 2 and g in REAL_EQ and e0 != "true":
            ctx.fail("eq-same", f"{g}: two generators built from the same seed with the same history do not compare equal", c,
                     expected="true", actual=e0)
        if kind == 2 and not same:
            ctx.fail("determinism", f"{g}: same seed and same history, different values", c)
        if kind in (0, 1):
            if g in REAL_EQ and e0 != "true":
                ctx.fail("clone-eq", f"{g}: a clone does not compare equal to its original", c, expected="true", actual=e0)
            if not same:
                ctx.fail("clone-future", f"{g}: a clone returns different values than its original", c)
        if e0 == "true":             # whichever type offers == (probed at compile time by the harness)
            if not same:
                ctx.fail("eq-future", f"{g}: generators that compare equal return different values", c)
            if o[-1] != "true":
                ctx.fail("eq-future", f"{g}: generators that compared equal are unequal after identical operations", c,
                         expected="true", actual=o[-1])

# ------------------------------------------------------------------ C11: serde
SERDE = [g for g in GENS if GENS[g]["ser"]]

def tie_C11(ctx):
    rng = ctx.rng
    cases, meta = [], []
    for g in SERDE:
        info = GENS[g]
        # every (index, half_used) configuration is a snapshot point — an EXPLICIT grid (exact positions: k native words,
        # then optionally one next_u32 leaving a pending half), followed by random positions / random histories
        grid = []
        if "blk" in info:
            blk = info["blk"]
            ks = list(range(0, blk + 2)) if ctx.thorough else [0, 1, 2, blk // 2 - 1, blk - 2, blk - 1, blk, blk + 1]
            grid = [(k, half) for k in ks for half in ([False, True] if info["cls"] == "block64" else [False])]
        for i in range(len(grid) + ctx.scale(24, 300)):
            seed = pick_seed(rng, info["seed"])
            pre = history(rng, g, rng.randrange(0, 5)) if i % 3 and i >= len(grid) else []
            if "blk" in info:
                k, half = grid[i] if i < len(grid) else (rng.randrange(0, 600), rng.random() < 0.5 and info["cls"] == "block64")
                nat1 = "u64" if info["cls"] == "block64" else "u32"
                pre = [nat1] * k + (["u32"] if half else []) + pre
                ctx.dist[f"{g}:index={k % info['blk'] if k % info['blk'] or k == 0 else info['blk']},half={half}"] += 1
            cont = history(rng, g, rng.randrange(2, 6))
            c = [f"new 0 {g} seed {seed.hex()}"] + op_lines(0, pre) + ["ser 0", "rt 1 0", "ser 0", "ser 1", "eq 0 1"]
            at = len(c) - 5
            for o in cont:
                c += op_lines(0, [o]) + op_lines(1, [o])
            c += ["ser 0", "ser 1"]
            cases.append(c); meta.append((g, at))
            ctx.dist[f"{g}:snapshot"] += 1
    # the image is compared real-vs-real (restored = original); vs the model only the outcomes of rt / eq
    h, _ = ctx.absolute_from_state("bincode image at a random point of a random history, restored twin, continuations vs model", cases,
                                   mask=lambda c_: only_state(c_) or c_.startswith("ser "))
    for (g, at), c, o in zip(meta, cases, h):
        if o[at + 1] != "ok":
            ctx.fail("serde", f"{g}: deserializing its own image failed", c, expected="ok", actual=o[at + 1]); continue
        if o[at] != o[at + 2]:
            ctx.fail("serde", f"{g}: serializing disturbed the original", c)
        if o[at] != o[at + 3]:
            ctx.fail("serde", f"{g}: image of the restored generator differs from the snapshot", c)
        if o[at + 4] != "true":
            ctx.fail("serde", f"{g}: restored generator does not compare equal", c, expected="true", actual=o[at + 4])
        pairs = [(o[i], o[i + 1]) for i in range(at + 5, len(c) - 2, 2)]
        if not all(x == y for x, y in pairs) or o[-1] != o[-2]:
            ctx.fail("serde", f"{g}: restored generator has a different future", c)
    # any byte string of the right length is a valid image of the word-state types: numeric coincidences included
    wordy = [g for g in SERDE if "blk" not in GENS[g]]
    crafted = []
    for g in wordy:
        nb = 8 if g == "SplitMix64" else GENS[g]["seed"]
        imgs = [s_ for _, s_ in coincidence_seeds(rng, nb, k=ctx.scale(2, 10))] + [bytes(nb), b"\xff" * nb] + \
               [rand_bytes(rng, nb) for _ in range(ctx.scale(3, 30))]
        for img in imgs:
            c = [f"de 0 {g} {img.hex()}", "ser 0", "rt 1 0", "ser 1", "eq 0 1", f"{native(g)} 0", f"{native(g)} 1", "ser 0", "ser 1"]
            crafted.append(c)
    hc = ctx.real("deserialising arbitrary valid images of the word-state generators reproduces them exactly", crafted)
    for c, o in zip(crafted, hc):
        g, img = c[0].split()[2], c[0].split()[3]
        if o[0] != "ok":
            ctx.fail("serde", f"{g}: a valid image was rejected by deserialisation", c, expected="ok", actual=o[0]); continue
        if o[1] != img or o[3] != img:
            ctx.fail("serde", f"{g}: deserialise-then-serialise does not reproduce the image (the state was altered)", c,
                     expected=img, actual=o[1])
        elif o[4] != "true" or o[5] != o[6] or o[7] != o[8]:
            ctx.fail("serde", f"{g}: restored generator differs from the original", c)
    # snapshots in states that only a very long history reaches: ISAAC's a / b / c (block counter) at their maximum are injected
    # through the image, the generator is driven across the block end (the counter wraps to 0) and the snapshot is taken at
    # several read positions INSIDE the following blocks (with and without a pending half) — `c == 0` is a legitimate state again
    far = []
    for base in isaac_counter_extreme_cases(ctx, rng):
        g = base[0].split()[2]
        wsz = 4 if g == "IsaacRng" else 8
        for k in (0, 1, 255, 256, 300):
            for half in ([False, True] if g == "Isaac64Rng" else [False]):
                c = [base[0], f"fill 0 {k * wsz}"] + (["u32 0"] if half else []) + \
                    ["ser 0", "rt 1 0", "ser 1", "eq 0 1", f"{native(g)} 0", f"{native(g)} 1", "u32 0", "u32 1", f"fill 0 {2 * 256 * wsz}",
                     f"fill 1 {2 * 256 * wsz}", "ser 0", "ser 1"]
                far.append(c)
                ctx.dist[f"{g}: snapshot after the block counter wrapped"] += 1
    hf = ctx.real("snapshots in states reached only after a very long history (counter fields at their maximum, then wrapped)", far)
    for c, o in zip(far, hf):
        g = c[0].split()[2]
        i = c.index("ser 0")
        if o[0] in ("unsupported",) or o[i] in ("unsupported", "panic"):
            continue
        if o[i + 1] != "ok":
            ctx.fail("serde", f"{g}: a snapshot taken after the block counter wrapped around cannot be restored", c, expected="ok", actual=o[i + 1]); continue
        if o[i + 2] != o[i] or o[i + 3] not in ("true", "unsupported") or o[i + 4] != o[i + 5] or o[i + 6] != o[i + 7] or o[i + 8] != o[i + 9] or o[i + 10] != o[i + 11]:
            ctx.fail("serde", f"{g}: the generator restored from a snapshot taken after the block counter wrapped does not continue like the original", c)
    # the same through a HUMAN-READABLE serde format (is_human_readable() = true; tools: harness/src/hrfmt.rs): a hand-written
    # Serialize/Deserialize may take another path there.  States with short words (leading zero digits), zero words, extremes.
    hr, hmeta = [], []
    for g in SERDE:
        info = GENS[g]
        nb = 8 if g == "SplitMix64" else info["seed"]
        starts = []
        if "blk" not in info:
            wsz = info["w"] // 8 if g != "SplitMix64" else 8
            for _ in range(ctx.scale(10, 80)):
                b = b"".join((rng.getrandbits(8 * wsz) >> rng.choice([0, 1, 4, 5, 8, 12, 16, 8 * wsz - 4, 8 * wsz - 1])).to_bytes(wsz, "little")
                             for _ in range(nb // wsz))
                starts.append([f"de 0 {g} {b.hex()}"])
            starts += [[f"de 0 {g} {s_.hex()}"] for _, s_ in coincidence_seeds(rng, nb, k=1)[:6]]
            starts += [[f"de 0 {g} {bytes(nb).hex()}"], [f"de 0 {g} {'ff' * nb}"]]
        for i in range(ctx.scale(8, 60)):
            pre = history(rng, g, rng.randrange(0, 5))
            if "blk" in info:
                nat1 = "u64" if info["cls"] == "block64" else "u32"
                pre = [nat1] * rng.choice([0, 1, 255, 256, 257, rng.randrange(600)]) + pre + (["u32"] if info["cls"] == "block64" and i % 2 else [])
            starts.append([f"new 0 {g} seed {pick_seed(rng, info['seed']).hex()}"] + op_lines(0, pre))
        for st_ in starts:
            c = st_ + ["ser 0", "rth 1 0", "ser 0", "ser 1", "eq 0 1"]
            at = len(c) - 5
            for o in history(rng, g, rng.randrange(2, 5)):
                c += op_lines(0, [o]) + op_lines(1, [o])
            c += ["ser 0", "ser 1"]
            hr.append(c); hmeta.append((g, at))
            ctx.dist[f"{g}:human-readable-roundtrip"] += 1
    hh = ctx.real("round trip through a human-readable serde format at arbitrary points / for arbitrary valid states", hr)
    for (g, at), c, o in zip(hmeta, hr, hh):
        if o[0] != "ok" or o[at + 1] == "unsupported":
            continue
        if o[at + 1] != "ok":
            ctx.fail("serde", f"{g}: deserializing its own human-readable image failed", c, expected="ok", actual=o[at + 1]); continue
        pairs = [(o[i], o[i + 1]) for i in range(at + 5, len(c) - 2, 2)]
        if o[at] != o[at + 2] or o[at] != o[at + 3] or o[at + 4] != "true" or not all(x == y for x, y in pairs) or o[-1] != o[-2]:
            ctx.fail("serde", f"{g}: the generator restored from a human-readable serde image is not the original "
                     f"(state image / == / future differ)", c, expected=o[at], actual=o[at + 3])
    # malformed images: truncated, and an invalid bool for Isaac64Rng
    mal = []
    for g in SERDE:
        seed = rand_bytes(rng, GENS[g]["seed"])
        mal.append([f"new 0 {g} seed {seed.hex()}", "u32 0", "ser 0"])
    o1 = ctx.real("images for malformed-input tests", mal)
    m2 = []
    for g, o in zip(SERDE, o1):
        img = bytes.fromhex(o[2])
        m2.append([f"de 1 {g} {img[:-1].hex() if len(img) > 1 else '-'}"])
        m2.append([f"de 1 {g} {img.hex()}", f"{native(g)} 1"])
        if g == "Isaac64Rng":
            b = bytearray(img); b[2048 + 8] = 2
            m2.append([f"de 1 {g} {bytes(b).hex()}"])
    ctx.absolute("deserializing truncated / invalid images fails, valid image succeeds", m2)

# ------------------------------------------------------------------ JitterRng timer scripts
def jitter_readings(rng, n, style=None):
    """n timer readings. The generator takes them as [prime] + ([loop-count, time, loop-count])*,
    test_timer as [init] + ([time, lc, lc, time2])*; both see the same list, so alignment is only a
    matter of which readings act as times."""
    style = style or rng.choice(["random", "random", "walk", "walk", "smallstep", "stuckrun", "backwards", "huge"])
    out = []
    t = rng.getrandbits(rng.choice([20, 40, 63]))
    for i in range(n):
        if style == "random":
            t = rng.getrandbits(64)
        elif style == "walk":
            t = (t + rng.randrange(1, 5000)) & MASK64
        elif style == "smallstep":
            t = (t + rng.choice([1, 2, 3, 5, 8])) & MASK64
        elif style == "stuckrun":
            t = (t + (7 if (i // 9) % 2 else rng.randrange(1, 300))) & MASK64
        elif style == "backwards":
            t = (t + rng.choice([-50, -1, 0, 3, 100, 1000, 12345])) & MASK64
        elif style == "huge":
            t = (t + rng.choice([0x7fffffff, 0x80000000, 0xffffffff, 0x100000001, -0x7fffffff, 1 << 63, 17])) & MASK64
        out.append(t)
    return out

def meas_script(rng, deltas, t0=None, lc=None):
    """readings for gen_entropy: priming reading, then per measurement [loop-count, time, loop-count] where the time
    advances by exactly the given (signed) delta"""
    t = t0 if t0 is not None else rng.getrandbits(44)
    rs = [t]
    for d in deltas:
        t = (t + d) & MASK64
        rs += [rng.getrandbits(64) if lc is None else lc, t, rng.getrandbits(64) if lc is None else lc]
    return rs

def stuck_pattern_deltas(rng, n):
    """delta sequences from a small grammar that exercises every branch of the stuck test: repeats (first difference
    0), arithmetic runs (second difference 0), zero deltas, staircases, wrap-around coincidences (differences equal
    modulo 2^32 but not as integers), extreme values"""
    out, d, step = [], rng.randrange(1, 5000), rng.randrange(1, 50)
    while len(out) < n:
        r = rng.random()
        if r < 0.15:
            out += [d] * rng.randrange(1, 4)                        # repeat
        elif r < 0.30:
            for _ in range(rng.randrange(2, 5)):                    # arithmetic run
                d += step; out.append(d)
        elif r < 0.40:
            for _ in range(rng.randrange(2, 4)):                    # staircase: repeat, then the same step again
                out += [d, d]; d += step
        elif r < 0.45:
            out.append(0)
        elif r < 0.60:
            base = rng.choice([-(1 << 31) + rng.randrange(0, 200), (1 << 31) - 1 - rng.randrange(0, 200), rng.randrange(-50, 50)])
            x = rng.randrange(1, 200)
            # d1 - d2 = 2^31 - x and d2 - d3 = -2^31 - x: equal modulo 2^32, different as integers
            d2 = -(1 << 31) + rng.randrange(100, 1000)
            out += [d2 + (1 << 31) - x, d2, d2 + (1 << 31) + x, base]
        elif r < 0.70:
            out.append(rng.choice([0x7fffffff, -0x80000000, -0x7fffffff, 0x7ffffffe, -1, 1]))
        else:
            d = rng.randrange(1, 100000); step = rng.randrange(1, 500); out.append(d)
    return out[:n]

def rd_hex(rs):
    return ",".join(f"{r:x}" for r in rs) if rs else "-"

def tie_C12(ctx):
    rng = ctx.rng
    cases = []
    for i in range(ctx.scale(250, 4000)):
        style = None
        rs = jitter_readings(rng, rng.choice([120, 400, 1200]), style)
        c = [f"timer 0 {rd_hex(rs)}", "jit 1 0"]
        if rng.random() < 0.8:
            c.append(f"rounds 1 {rng.choice([1, 1, 2, 3, 4])}")
        for _ in range(rng.randrange(2, 9)):
            r = rng.random()
            if r < 0.2:
                c.append(f"rounds 1 {rng.choice([1, 1, 2, 3, 5, 8, 64, 255, 0])}")
            elif r < 0.4:
                c.append("u32 1")
            elif r < 0.6:
                c.append("u64 1")
            elif r < 0.8:
                c.append(f"fill 1 {rng.choice([0, 1, 3, 4, 5, 7, 8, 9, 12, 13, 16, 17, 24])}")
            elif r < 0.9:
                c.append(f"stats 1 {rng.choice([0, 1])}")
            else:
                c.append("clone 2 1"); c.append("u32 2")
            c.append("calls 0")
            c.append("pool 1")
        cases.append(c)
        ctx.dist["ops:" + ",".join(sorted({l.split()[0] for l in c[2:]}))[:60]] += 1
    for i in range(ctx.scale(150, 2500)):
        rounds = rng.choice([1, 2, 3, 5])
        rs = meas_script(rng, stuck_pattern_deltas(rng, rng.choice([40, 120])))
        c = [f"timer 0 {rd_hex(rs)}", "jit 1 0", f"rounds 1 {rounds}"]
        for _ in range(rng.randrange(1, 5)):
            c += [rng.choice(["u64 1", "u32 1", "fill 1 9"]), "calls 0", "pool 1"]
        cases.append(c)
        ctx.dist["stuck-pattern timers"] += 1
    # more than 65536 consecutive stuck measurements inside one collection, then the timer recovers
    for i in range(ctx.scale(1, 3)):
        deltas = [1234] + [1000] * (65536 + rng.randrange(1, 40)) + [1007, 1019, 1051, 1004, 977, 1313, 2222, 3131, 4000, 4700]
        cases.append([f"timer 0 {rd_hex(meas_script(rng, deltas))}", "jit 1 0", "rounds 1 2", "u64 1", "calls 0", "pool 1"])
        ctx.dist["65536+ consecutive stuck measurements"] += 1
    # bounds a change introduced (integer literals that are not in the pinned sources): a frozen clock for exactly that many
    # (and a few more / fewer) consecutive measurements inside one collection, after which the timer recovers
    for L in [v for v in new_literals(1 << 22) if v >= 64][:4]:
        for n in (L - 1, L + 2):
            t0 = rng.getrandbits(40)
            pre = meas_script(rng, [rng.randrange(1, 9000) for _ in range(3)], t0=t0)
            post, t = [], pre[-2]
            for _ in range(30):
                t += rng.randrange(1, 90000); post += [t, rng.getrandbits(64), rng.getrandbits(64)]
            rs = rd_hex(pre[:-1]) + f",{pre[-2]:x}*{3 * n + 1}," + rd_hex(post)
            cases.append([f"timer 0 {rs}", "jit 1 0", "rounds 1 2", "u64 1", "calls 0", "pool 1", "u64 1", "calls 0"])
            ctx.dist["frozen clock for a harvested number of measurements"] += 1
    h, m = ctx.absolute("JitterRng on scripted timers: results, pool and number of readings consumed vs model", cases,
                        stop_at_blocked=True)
    nb = sum(1 for o in h if "blocked" in o)
    ctx.dist["cases-ending-blocked"] = nb
    # the same procedure with the crate's optional `log` feature and a logger installed at Trace level: diagnostics must not
    # read the timer or change any result
    ok, log_, exe = harness_build(features="jlog", target_dir=os.path.join(HARNESS, "target-jlog"))
    if ok:
        saved = ctx.hexe
        ctx.hexe = exe
        try:
            sub = cases[:ctx.scale(120, 1200)]
            ctx.absolute("JitterRng with the `log` feature and a Trace-level logger installed: results and readings consumed vs model",
                         sub, stop_at_blocked=True)
            ctx.dist["config:log-feature+trace-logger"] = len(sub)
        finally:
            ctx.hexe = saved
    else:
        ctx.notes.append("harness build with rand_jitter/log failed: " + log_[-300:])

# ------------------------------------------------------------------ C13: test_timer
def probe_script(rng, deltas, start=None, lc=None, times=None):
    """readings for test_timer: init, then per probe [time, lc, lc, time2] with time2 - time = delta"""
    t = start if start is not None else rng.randrange(1, 1 << 40)
    rs = [rng.getrandbits(64)]
    for d in deltas:
        gap = rng.randrange(1, 1000)
        t = (t + gap) & MASK64
        if t == 0:
            t = 1
        t2 = (t + d) & MASK64
        rs += [t, rng.getrandbits(64), rng.getrandbits(64), t2]
        t = t2
    return rs

def timer_oracle(rs):
    """failure conditions of the property, computed from the readings alone"""
    def s32(x):
        x &= 0xffffffff
        return x - (1 << 32) if x & 0x80000000 else x
    conds = set()
    deltas = []
    zero_reading = False
    for i in range(400):
        t, t2 = rs[1 + 4 * i], rs[4 + 4 * i]
        if t == 0 or t2 == 0:
            conds.add("NoTimer"); zero_reading = True
        d = s32(t2 - t)
        if d == 0:
            conds.add("CoarseTimer")
        deltas.append((t, t2, d))
    counted = deltas[100:]
    back = sum(1 for t, t2, d in counted if t2 <= t)
    if back > 3:
        conds.add("NotMonotonic")
    mod = sum(1 for t, t2, d in counted if d % 100 == 0)
    if mod > 270:
        conds.add("CoarseTimer")
    stuck = 0
    last, last2 = 0, 0
    dsum, old = 0, 0
    for t, t2, d in counted:
        d2 = s32(last - d); d3 = s32(d2 - last2)
        if d == 0 or d2 == 0 or d3 == 0:
            stuck += 1
        last, last2 = d, d2
        dsum += abs(d - old); old = d
    if stuck > 270:
        conds.add("TooManyStuck")
    mean = dsum // 300
    if mean < 2:
        conds.add("TinyVariations")
    return conds, mean

def exact_sum_probes(rng, thorough=False):
    """probe delta sequences whose variation sum over the 300 counted probes is EXACTLY a chosen value: every table row
    boundary 300*m + r for r in {0, 1, 149, 150, 151, 299} (fractional means matter for rounding mistakes)"""
    out = []
    ms = list(range(0, 19)) + [31, 32, 33, 63, 64, 65]
    for m in ms:
        for r in ((0, 1, 149, 150, 151, 299) if thorough or m in (1, 2, 15, 16, 17, 32) else (0, 150, 299)):
            target = 300 * m + r
            base = rng.randrange(150, 900)
            ds = [base] * 400
            # counted probes are 100..399; the first counted delta contributes |base - 0| = base
            left = target - base
            if left < 0:
                continue
            i = 101
            while left > 0 and i < 399:
                bump = min(left // 2, 140)
                if bump == 0:
                    break
                ds[i] = base + bump; left -= 2 * bump; i += 2
            if left == 1:
                ds[399] = base + 1; left = 0
            if left == 0:
                out.append((f"exact-sum", ds))
    return out

def tie_C13(ctx):
    rng = ctx.rng
    scripts = []
    def alt(a, m, n=400):
        return [a if i % 2 == 0 else a + m for i in range(n)]
    # every mean 0..40 and around every power of two (rows of the table, log2 boundaries)
    means = list(range(0, 41)) + [v for k in range(5, 34) for v in ((1 << k) - 1, 1 << k, (1 << k) + 1)]
    if not ctx.thorough:
        means = list(range(0, 20)) + rng.sample(means[20:], 24)
    for m in means:
        a = rng.randrange(1, 90)
        ds = alt(a, m)
        # break the constant second difference so that the stuck test does not dominate
        ds = [d + (1 if i % 7 == 3 else 0) for i, d in enumerate(ds)]
        scripts.append(("mean", probe_script(rng, ds)))
    # boundaries of delta_sum around 300 and 600 exactly
    for target in (299, 300, 301, 599, 600, 601, 4799, 4800, 4801):
        ds = [5] * 400
        # variation sum over counted probes: make exactly `target` by single +1 bumps/pairs
        left = target - 5        # first counted delta contributes |5 - 0|
        i = 101
        while left > 0 and i < 399:
            bump = min(left // 2, 40)
            if bump == 0:
                break
            ds[i] = 5 + bump; left -= 2 * bump; i += 2
        if left == 1:
            ds[399] = 6; left = 0
        scripts.append(("sum-boundary", probe_script(rng, ds)))
    for cls_, ds_ in exact_sum_probes(rng, thorough=ctx.thorough):
        scripts.append((cls_, probe_script(rng, ds_)))
    # multiples of 100 when some of them are backward steps (the count is on the signed 32-bit delta)
    for nback in (1, 2, 3):
        for total in (268, 269, 270, 271, 272, 273):
            ds = [100 * rng.randrange(1, 60) for _ in range(total - nback)] + [-100 * rng.randrange(1, 20) for _ in range(nback)] + \
                 [100 * rng.randrange(1, 60) + rng.randrange(1, 99) for _ in range(300 - total)]
            rng.shuffle(ds)
            scripts.append((f"mod100-with-backward={nback}", probe_script(rng, [rng.randrange(3, 90) for _ in range(100)] + ds)))
    for _ in range(ctx.scale(30, 400)):
        scripts.append(("stuck-pattern", probe_script(rng, [v if v else 1 for v in stuck_pattern_deltas(rng, 400)])))
    # one production of the grammar for the whole run: the stuck count is then far from / right at the 90 % threshold
    for rep in range(ctx.scale(2, 10)):
        d0, st = rng.randrange(500, 3000), rng.randrange(1, 40)
        pure = {
            "staircase": [d0 + st * (i // 2) for i in range(400)],                       # d,d,d+s,d+s,… : half the probes stuck
            "staircase3": [d0 + st * (i // 3) for i in range(400)],
            "ramp": [d0 + st * i for i in range(400)],                                   # constant second difference: all stuck
            "alternating": [d0 + (st if i % 2 else 0) for i in range(400)],
            "sawtooth": [d0 + st * (i % 5) for i in range(400)],
            "repeat-pairs-random": [v for _ in range(200) for v in [rng.randrange(100, 9000)] * 2],
            "constant": [d0] * 400,
        }
        for k_, ds_ in pure.items():
            scripts.append(("pure-" + k_, probe_script(rng, ds_)))
    # error classes
    z = probe_script(rng, [rng.randrange(1, 50) for _ in range(400)]); z[1 + 4 * rng.randrange(400)] = 0
    scripts.append(("zero-reading", z))
    z = probe_script(rng, [rng.randrange(1, 50) for _ in range(400)]); z[4 + 4 * rng.randrange(400)] = 0
    scripts.append(("zero-reading2", z))
    for pos in (0, 50, 99, 100, 250, 399):
        ds = [rng.randrange(1, 80) for _ in range(400)]; ds[pos] = 0
        scripts.append(("zero-delta", probe_script(rng, ds)))
        ds = [rng.randrange(1, 80) for _ in range(400)]; ds[pos] = 1 << 32
        scripts.append(("zero-truncated-delta", probe_script(rng, ds)))
    for nback in range(0, 7):
        ds = [rng.randrange(1, 200) for _ in range(400)]
        for p in rng.sample(range(100, 400), nback):
            ds[p] = -rng.randrange(1, 100)
        scripts.append((f"backwards={nback}", probe_script(rng, ds)))
    # probes that straddle a wrap of the 64-bit counter (second reading smaller, 32-bit delta small and positive), and
    # probes whose readings are 2^63 or more apart: "not larger" is a statement about the u64 readings, not about a signed
    # difference.  3 such probes are tolerated, 4 are NotMonotonic.
    for nwrap in (1, 2, 3, 4, 5, 8):
        for style in ("wrap", "far"):
            z = probe_script(rng, [rng.randrange(1, 200) for _ in range(400)])
            for p in rng.sample(range(100, 400), nwrap):
                a, b_ = rng.randrange(1, 60), rng.randrange(1, 60)
                if style == "wrap":
                    z[1 + 4 * p], z[4 + 4 * p] = (1 << 64) - a, b_
                else:
                    hi = (1 << 63) + rng.randrange(1, 1 << 40)
                    z[1 + 4 * p], z[4 + 4 * p] = hi, (hi + (1 << 63) + rng.randrange(1, 90)) & MASK64
            scripts.append((f"{style}-probes={nwrap}", z))
    for frac in (0.85, 0.89, 0.9, 0.9034, 0.91, 0.95, 1.0):
        ds = [(100 * rng.randrange(1, 50)) if rng.random() < frac else rng.randrange(1, 99) for _ in range(400)]
        scripts.append((f"mod100~{frac}", probe_script(rng, ds)))
        k = int(300 * frac)
        ds = [rng.randrange(1, 200) for _ in range(100)] + [9] * k + [rng.randrange(1, 3000) for _ in range(300 - k)]
        scripts.append((f"stuck~{frac}", probe_script(rng, ds)))
    for _ in range(ctx.scale(40, 800)):
        hi = rng.choice([3, 10, 100, 5000, 1 << 20, 1 << 31])
        ds = [rng.randrange(1, hi) for _ in range(400)]
        scripts.append(("random", probe_script(rng, ds)))
    for style in ("huge", "backwards", "random", "smallstep"):
        for _ in range(ctx.scale(4, 40)):
            scripts.append((style, jitter_readings(rng, 1601, style)))
    cases = []
    for cls, rs in scripts:
        cases.append([f"timer 0 {rd_hex(rs)}", "jit 1 0", "testtimer 1", "calls 0", "pool 1"])
        ctx.dist["script:" + cls.split("=")[0].split("~")[0]] += 1
    h, _ = ctx.absolute("test_timer on scripted timers (every table row, thresholds, each error class) vs model", cases,
                        mask=lambda c_: c_.startswith("pool "))
    follow = []
    for (cls, rs), c, o in zip(scripts, cases, h):
        res = o[2]
        conds, mean = timer_oracle(rs)
        ctx.dist["result:" + res.split()[0] + (":" + res.split()[1] if res.startswith("err") else "")] += 1
        if res == "panic":
            ctx.fail("test_timer", "test_timer panicked instead of returning Ok or Err", c, expected="Ok(r) or Err(e)", actual="panic")
        if res.startswith("ok "):
            r = int(res.split()[1])
            bl = mean.bit_length()
            if conds:
                ctx.fail("test_timer", f"test_timer returned Ok({r}) although failure condition(s) {sorted(conds)} hold", c,
                         expected="Err", actual=res, key=None)
            elif not (1 <= r <= 128 and r * bl >= 128):
                ctx.fail("test_timer", f"test_timer returned Ok({r}) for mean delta variation {mean}: not a usable round count "
                         f"(need 1 <= r <= 128 and r*bitlen(mean) >= 128)", c, expected="1<=r<=128, r*bitlen(mean)>=128", actual=res)
            follow.append(c[:3] + [f"rounds 1 {r}"])
        elif res.startswith("err "):
            e = res.split()[1]
            if e not in conds:
                ctx.fail("test_timer", f"test_timer returned Err({e}) but that condition does not hold (holding: {sorted(conds)})", c,
                         expected=str(sorted(conds)), actual=res)
    h2 = ctx.real("set_rounds(test_timer()?) never trips the assertion", follow)
    for c, o in zip(follow, h2):
        if o[3] != "ok":
            ctx.fail("test_timer", "set_rounds(test_timer()?) panicked", c, expected="ok", actual=o[3])

def image_surgery_C10(ctx):
    """== on generators whose serde images differ in one, two or three words (same or cancelling masks):
    a `==` that says equal must come with identical futures"""
    rng = ctx.rng
    base = []
    for g in SERDE:
        for _ in range(ctx.scale(2, 12)):
            base.append([f"new 0 {g} seed {pick_seed(rng, GENS[g]['seed']).hex()}", f"{native(g)} 0", "ser 0"])
    o1 = ctx.real("images for == surgery", base)
    cases, meta = [], []
    for c0, o in zip(base, o1):
        g = c0[0].split()[2]
        img = bytes.fromhex(o[2])
        wsz = 4 if GENS[g]["w"] == 32 else 8
        # word positions that hold state words (for ISAAC: the mem array, after results+index(+half))
        if g == "IsaacRng":
            lo, hi = 1024 + 8, 1024 + 8 + 1024 + 12
        elif g == "Isaac64Rng":
            lo, hi = 2048 + 9, 2048 + 9 + 2048 + 24
        else:
            lo, hi = 0, len(img)
        nwords = (hi - lo) // wsz
        for shape in ("one", "two-same-mask", "two-diff-mask", "three-cancel"):
            b = bytearray(img)
            m1 = rng.getrandbits(8 * wsz) | 1
            m2 = rng.getrandbits(8 * wsz) | 1
            pos = rng.sample(range(nwords), min(3, nwords))
            masks = {"one": [m1], "two-same-mask": [m1, m1], "two-diff-mask": [m1, m2], "three-cancel": [m1, m2, m1 ^ m2]}[shape]
            if len(pos) < len(masks):
                continue
            for p_, mk in zip(pos, masks):
                off = lo + p_ * wsz
                v = int.from_bytes(b[off:off + wsz], "little") ^ mk
                b[off:off + wsz] = v.to_bytes(wsz, "little")
            c = [f"de 0 {g} {img.hex()}", f"de 1 {g} {bytes(b).hex()}", "eq 0 1"]
            for op in ("u32", "u64", "fill 9", "u32"):
                c += op_lines(0, [op]) + op_lines(1, [op])
            if GENS[g]["blk"] if "blk" in GENS[g] else 0:
                c += [f"fill 0 {GENS[g]['blk'] * wsz}", f"fill 1 {GENS[g]['blk'] * wsz}", "u64 0", "u64 1"]
            cases.append(c); meta.append((g, shape))
            ctx.dist[f"surgery:{shape}"] += 1
    h = ctx.real("== on images differing in 1-3 state words (same / different / cancelling masks), then identical ops", cases)
    for (g, shape), c, o in zip(meta, cases, h):
        if o[0] != "ok" or o[1] != "ok":
            continue
        same = all(o[i] == o[i + 1] for i in range(3, len(c) - 1, 2))
        if o[2] == "true" and not same:
            ctx.fail("eq-future", f"{g}: two generators whose states differ ({shape}) compare equal but return different values", c,
                     expected="false", actual="true")

def tie_C10_all(ctx):
    tie_C10(ctx)
    image_surgery_C10(ctx)

def falsify_C10(ctx):
    """a broken obligation of C10 (a correspondence theorem of an `eq`, or a hand-written Clone / PartialEq the translator tie has
    no theorem for — check.py ext_stage, `unmodelled`) and no failing pair among the quick cases: the thorough grid of pairs"""
    if ctx.thorough:
        return
    ctx.thorough = True
    try:
        tie_C10_all(ctx)
    finally:
        ctx.thorough = False

PROPS.update({
    "C10": dict(tie=tie_C10_all, falsifier=falsify_C10),
    "C11": dict(tie=tie_C11),
    "C12": dict(tie=tie_C12, absolute=True),
    "C13": dict(tie=tie_C13),
})

# ------------------------------------------------------------------ C14: no panics
def hostile_readings(rng, n):
    specials = [0, 1, 0x7fffffff, 0x80000000, 0x80000001, 0xffffffff, 0x100000000, 0x100000001,
                (1 << 63) - 1, 1 << 63, MASK64, MASK64 - 0x7fffffff, 0xfffffffe00000000]
    out, t = [], rng.choice(specials)
    for _ in range(n):
        r = rng.random()
        if r < 0.5:
            t = (t + rng.choice([0x7fffffff, -0x7fffffff, 0x80000000, -0x80000000, 0xffffffff, 1, -1, 0x100000000, 3, 1 << 62])) & MASK64
        elif r < 0.8:
            t = rng.choice(specials)
        else:
            t = rng.getrandbits(64)
        out.append(t)
    return out

def tie_C14(ctx):
    rng = ctx.rng
    cases = []
    # JitterRng with extreme deltas: generation, test_timer, timer_stats
    for i in range(ctx.scale(150, 2500)):
        if i % 3 == 0:
            # the shape of the repaired defect: successive deltas +(2^31-1) then -(2^31-1)
            t0 = rng.getrandbits(40)
            rs, t = [t0], t0
            for k in range(200):
                d = [0x7fffffff, -0x7fffffff, 0x80000000, 5][k % 4] if i % 6 == 0 else rng.choice([0x7fffffff, -0x7fffffff, -0x80000000, 0x7ffffffe, 2])
                t = (t + d) & MASK64
                rs += [rng.getrandbits(64), t, rng.getrandbits(64)]
        else:
            rs = hostile_readings(rng, rng.choice([100, 400]))
        c = [f"timer 0 {rd_hex(rs)}", "jit 1 0", f"rounds 1 {rng.choice([1, 2, 3, 7])}"]
        for _ in range(rng.randrange(1, 6)):
            c.append(rng.choice(["u32 1", "u64 1", "fill 1 5", "fill 1 0", "fill 1 3", "stats 1 1", "stats 1 0", "fill 1 17"]))
        cases.append(c)
        ctx.dist["jitter-hostile-gen"] += 1
    for i in range(ctx.scale(60, 1000)):
        if i % 2 == 0:
            ds = [rng.choice([0x7fffffff, -0x7fffffff, 0x7ffffffe, -0x80000000 + 1, 1, -1, 0x80000000 - 2]) for _ in range(400)]
            rs = probe_script(rng, ds)
        else:
            rs = hostile_readings(rng, 1601)
        cases.append([f"timer 0 {rd_hex(rs)}", "jit 1 0", "testtimer 1", "u32 1"])
        ctx.dist["jitter-hostile-test_timer"] += 1
    cases.append(["timer 0 1,2,3", "jit 1 0", "rounds 1 0"])
    # JitterRng::new() on the real clock (std feature): Ok or Err, never a panic; twice (second call uses the cached rounds)
    cases.append(["jitnew", "jitnew", "jitnew"])
    # test_timer at every row of the rounds table and around every log2 boundary (indexing, division)
    for m in list(range(0, 41)) + [v for k in range(5, 34) for v in ((1 << k) - 1, 1 << k, (1 << k) + 1)]:
        a = rng.randrange(1, 90)
        ds = [(a if i % 2 == 0 else a + m) + (1 if i % 7 == 3 else 0) for i in range(400)]
        if ctx.thorough or m % 5 == 0:
            cases.append([f"timer 0 {rd_hex(probe_script(rng, ds))}", "jit 1 0", "testtimer 1", "u32 1"])
        # exact means: no perturbation
        ds = [(a if i % 2 == 0 else a + m) for i in range(400)]
        cases.append([f"timer 0 {rd_hex(probe_script(rng, ds))}", "jit 1 0", "testtimer 1"])
        ctx.dist["jitter-test_timer-mean-sweep"] += 2
    for cls_, ds_ in exact_sum_probes(rng, thorough=ctx.thorough):
        cases.append([f"timer 0 {rd_hex(probe_script(rng, ds_))}", "jit 1 0", "testtimer 1"])
        ctx.dist["jitter-test_timer-exact-sum"] += 1
    for _ in range(ctx.scale(40, 600)):
        cases.append([f"timer 0 {rd_hex(meas_script(rng, stuck_pattern_deltas(rng, 60)))}", "jit 1 0", f"rounds 1 {rng.choice([1, 2, 3])}",
                      "u64 1", "u32 1", "fill 1 7"])
        ctx.dist["jitter-stuck-patterns"] += 1
    # states that a very long history reaches (block counters at their maximum), injected through the serde image
    inj = []
    for g in ("IsaacRng", "Isaac64Rng"):
        inj.append([f"new 0 {g} seed {rand_bytes(rng, 32).hex()}", f"{native(g)} 0", "ser 0"])
    oi = ctx.real("images for counter-extreme states", inj)
    for c0, o in zip(inj, oi):
        g = c0[0].split()[2]
        if o[2] in ("unsupported", "panic"):
            continue
        img = bytearray(bytes.fromhex(o[2]))
        wsz = 4 if g == "IsaacRng" else 8
        for fields in ((1, 1, 1), (0, 0, 1), (1, 0, 0), (0, 1, 0)):        # a, b, c at all-ones
            b = bytearray(img)
            for k, on in enumerate(fields):
                if on:
                    off = len(b) - (3 - k) * wsz
                    b[off:off + wsz] = b"\xff" * wsz
            cases.append([f"de 0 {g} {bytes(b).hex()}", f"fill 0 {3 * 256 * wsz}", "u32 0", "u64 0"])
            ctx.dist[f"{g}:counter fields at maximum"] += 1
    # every deterministic generator: extreme seeds, zero / odd / large fills at every buffer index
    for g in GENS:
        info = GENS[g]
        for cls, seed in seed_classes(rng, info["seed"], ctx.scale(4, 60), all_bits=False, nzero_walk=2) + [("zero", bytes(info["seed"]))]:
            ops = []
            if "blk" in info:
                ops += ["u32"] * rng.choice([0, 1, info["blk"] - 1, info["blk"], info["blk"] + 1])
            ops += rand_ops(rng, rng.randrange(2, 9), maxfill=5000, small_bias=0.5)
            if info["jump"]:
                ops += ["jump", "ljump"]
            c = [f"new 0 {g} seed {seed.hex()}"] + op_lines(0, ops) + ["dbg 0", "clone 1 0", "eq 0 1"]
            if info["ser"]:
                c += ["ser 0", "rt 2 0"]
            cases.append(c)
            ctx.dist[f"det:{cls}"] += 1
        for x in [0, MASK64, (-PHI) & MASK64, rng.getrandbits(64)]:
            cases.append([f"new 0 {g} u64 {x:016x}", f"{native(g)} 0", "fill 0 0", "fill 0 1"])
        for body in [bytes(2100), b"\xff" * 2100, rand_bytes(rng, 2100)]:
            for how in ("rng", "try"):
                cases.append([f"src 1 {body.hex()}", f"new 0 {g} {how} 1", f"{native(g)} 0"])
    cases += arith_edge_cases(ctx)
    # HC-128 beyond 2^32 keystream words (16 GiB: every counter of 32 bits or fewer has wrapped), ISAAC-64/ISAAC a few GiB
    cases.append(["new 0 Hc128Rng seed " + "05" * 32, f"burn 0 {(1 << 34) + 8192}", "u32 0", "fill 0 70"])
    cases.append(["new 0 IsaacRng seed " + "06" * 32, f"burn 0 {1 << 31}", "u32 0"])
    cases.append(["new 0 Xoshiro256PlusPlus seed " + "07" * 32, f"burn 0 {1 << 31}", "u64 0"])
    ctx.dist["very long histories (burn)"] += 3
    # HC-128 far into the stream (counter arithmetic), ISAAC across many refills
    cases.append(["new 0 Hc128Rng seed " + "07" * 32] + ["fill 0 65536"] * 5 + ["u32 0", "u64 0"])
    cases.append(["new 0 IsaacRng seed " + "09" * 32] + ["fill 0 65535"] * 2 + ["u32 0", "u64 0"])
    cases.append(["new 0 Isaac64Rng seed " + "0b" * 32] + ["fill 0 65535"] * 2 + ["u32 0", "u64 0", "u32 0"])
    # C14 is about panics only: two results agree unless exactly one of them is `panic`
    h, _ = ctx.absolute("every operation under catch_unwind in an overflow-checked build; model predicts no panic", cases,
                        stop_at_blocked=True, mask=lambda c: c.startswith("dbg "),
                        equal=lambda x, y: (x == "panic") == (y == "panic"))
    # (`burn` lines answer `ok <xor of the last bytes>` on the real code and `ok` in the model: only panic-ness is compared)
    for c, o in zip(cases, h):
        for cmd, v in zip(c, o):
            if v == "panic" and not (cmd.startswith("rounds ") and cmd.endswith(" 0")):
                ctx.fail("panic", f"`{cmd[:60]}` panicked (overflow check, index out of bounds or assertion)", c,
                         expected="no panic", actual="panic")
                break
            if v == "blocked":
                break
    # the same JitterRng cases with the crate's optional `log` feature and a logger installed at Trace level (arguments of
    # trace!/debug!/warn! are evaluated only then): diagnostics must not be able to panic either
    ok, log_, exe = harness_build(features="jlog", target_dir=os.path.join(HARNESS, "target-jlog"))
    if ok:
        jc = [c for c in cases if c and c[0].startswith("timer ")]
        jo = run_chunks(exe, jc)
        ctx.dist["config:log-feature+trace-logger"] = len(jc)
        ctx.evaluations += len(jc)
        for c, o in zip(jc, jo):
            for cmd, v in zip(c, o):
                if v == "panic" and not (cmd.startswith("rounds ") and cmd.endswith(" 0")):
                    ctx.fail("panic", f"`{cmd[:60]}` panicked with the `log` feature and a Trace-level logger installed", c,
                             expected="no panic", actual="panic")
                    break
                if v == "blocked":
                    break
            else:
                continue
            if ctx.failures:
                break
    else:
        ctx.notes.append("harness build with rand_jitter/log failed: " + log_[-300:])

# ------------------------------------------------------------------ C15: pool mixing bijective
def tie_C15(ctx):
    rng = ctx.rng
    def lf(d, t):
        return [f"timer 0 {t:x},{t:x}", "jit 1 0", f"setpool 1 {d:016x}", "stats 1 0", "pool 1"]
    def st(d):
        return ["timer 0 1", "jit 1 0", f"setpool 1 {d:016x}", "stir 1", "pool 1"]
    cases, tags = [], []
    for j in range(64):
        cases.append(lf(1 << j, 0)); tags.append(("D", j))
    for j in range(64):
        cases.append(lf(0, 1 << j)); tags.append(("T", j))
    cases.append(lf(0, 0)); tags.append(("L0", 0))
    for j in range(64):
        cases.append(st(1 << j)); tags.append(("S", j))
    cases.append(st(0)); tags.append(("S0", 0))
    rnd = []
    for _ in range(ctx.scale(150, 3000)):
        d1, t1, d2, t2 = (rng.getrandbits(64) for _ in range(4))
        rnd.append((d1, t1, d2, t2))
        cases += [lf(d1, t1), lf(d2, t2), lf(d1 ^ d2, t1 ^ t2), st(d1), st(d2), st(d1 ^ d2)]
        tags += [("r", 0)] * 6
    h, _ = ctx.absolute("lfsr(pool, time) and stir(pool) through the cfg(rngs_verif) hooks: basis vectors and random pairs vs model", cases)
    if any(o[2] == "unsupported" for o in h):
        ctx.notes.append("hooks missing in /repo: C15 tie cannot observe the pool")
        ctx.disagreements.append(dict(family="hooks", case=cases[0], line=2, cmd="setpool", impl="unsupported", model="ok"))
        return
    val = lambda o: int(o[4], 16)
    D = [val(o) for t, o in zip(tags, h) if t[0] == "D"]
    T = [val(o) for t, o in zip(tags, h) if t[0] == "T"]
    S = [val(o) for t, o in zip(tags, h) if t[0] == "S"]
    L0 = [val(o) for t, o in zip(tags, h) if t[0] == "L0"][0]
    S0 = [val(o) for t, o in zip(tags, h) if t[0] == "S0"][0]
    ctx.c15 = dict(D=D, T=T, S=S, L0=L0, S0=S0)
    base = 64 + 64 + 1 + 64 + 1
    lin_ok = True
    for k, (d1, t1, d2, t2) in enumerate(rnd):
        o = h[base + 6 * k: base + 6 * k + 6]
        if val(o[0]) ^ val(o[1]) ^ val(o[2]) != L0:
            lin_ok = False
            ctx.notes.append("real lfsr is not jointly GF(2)-affine")
        if val(o[3]) ^ val(o[4]) ^ val(o[5]) != S0:
            lin_ok = False
            ctx.notes.append("real stir is not GF(2)-affine")
    # bijectivity of the real maps from their basis images (valid when they are affine)
    for name, cols, zero, mk in (("lfsr in the pool (time fixed)", D, L0, lambda v: lf(v, 0)),
                                 ("lfsr in the time value (pool fixed)", T, L0, lambda v: lf(0, v)),
                                 ("stir", S, S0, st)):
        lin = [c ^ zero for c in cols]
        rank, ker = gf2.rank_and_kernel(lin, 64)
        ctx.dist[f"rank({name})={rank}"] += 1
        if ker is not None and lin_ok:
            a = rng.getrandbits(64)
            c = mk(a) + mk(a ^ ker)
            o = ctx.real("collision from a kernel vector of the real map", [c])[0]
            if o[4] == o[9]:
                ctx.fail("collision", f"{name} is not one-to-one: two different inputs give the same pool value", c,
                         expected="different pool values", actual=o[4])

    # --- special points of the REAL affine maps (solved over GF(2) from their basis images): pre-images of 0, of all-ones, of
    # single bits, fixed points, and x with F(x) = x ^ c — the values a guard such as `if mixer != self.data` can key on
    def solve(cols, target):
        """x with XOR_{i in x} cols[i] == target (Gaussian elimination), or None"""
        rows = []          # (vector, combination)
        for i, c in enumerate(cols):
            v, comb = c, 1 << i
            for pv, pc in rows:
                if v & (pv & -pv):
                    v ^= pv; comb ^= pc
            if v:
                # keep rows reduced by lowest set bit
                rows.append((v, comb))
        x, t = 0, target
        for pv, pc in rows:
            if t & (pv & -pv):
                t ^= pv; x ^= pc
        return x if t == 0 else None
    if lin_ok:
        sp, spmeta = [], []
        for name, cols, zero, mk in (("lfsr in the pool (time fixed)", D, L0, lambda v: lf(v, 0)), ("stir", S, S0, st)):
            lin = [c ^ zero for c in cols]
            targets = [("F(x)=0", 0), ("F(x)=ones", MASK64), ("F(x)=1", 1), ("F(x)=2^63", 1 << 63), ("F(x)=2^32", 1 << 32)]
            for tag, tv in targets:
                x = solve(lin, tv ^ zero)
                if x is not None:
                    sp.append(mk(x)); spmeta.append((name, tag, x, tv))
            # fixed point: (A ^ I) x = b
            x = solve([c ^ (1 << i) for i, c in enumerate(lin)], zero)
            if x is not None:
                sp.append(mk(x)); spmeta.append((name, "F(x)=x", x, x))
            for cst in (0x5555555555555555, 0xaaaaaaaaaaaaaaaa, 0x00000000ffffffff):
                x = solve([c ^ (1 << i) for i, c in enumerate(lin)], zero ^ cst)       # F(x) = x ^ cst
                if x is not None:
                    sp.append(mk(x)); spmeta.append((name, f"F(x)=x^{cst:x}", x, x ^ cst))
        hs, _ = ctx.absolute("lfsr / stir at the special points of the real affine map (pre-images of 0, ones, fixed points) vs model", sp)
        for (name, tag, x, want), c, o in zip(spmeta, sp, hs):
            ctx.dist["special:" + tag.split("^")[0]] += 1
            if o[4] not in ("unsupported", "panic") and int(o[4], 16) != want:
                ctx.fail("collision", f"{name}: at the point x={x:016x} with {tag} the real map leaves its own affine law "
                         f"(it is affine on all basis vectors and random pairs), so it is not one-to-one", c,
                         expected=f"{want:016x}", actual=o[4])
    # --- the whole collection as a map of the pool: for a FIXED timer script (stuckness depends on the times only) one
    # next_u64 maps the pool it starts from to the value it returns; that map must be one-to-one (theorem
    # `genEntropy_never_merges`).  The real map is measured on the 64 basis pools + 0, checked for rank 64, and evaluated at
    # its special points (pre-images of 0 / ones / single bits / the source's own 64-bit constants / fixed points): a guard
    # anywhere in the collection that keys on such a value shows as a departure from the map's own affine law there, and the
    # value it returns instead has a second pre-image — a collision on the real code.
    def ge(tscript, r, pool):
        return [f"timer 0 {tscript}", "jit 1 0", f"rounds 1 {r}", f"setpool 1 {pool:016x}", "u64 1", "calls 0"]
    consts = sorted({int.from_bytes(b[:8], "little") for _, b in source_constant_seeds("rand_jitter", 8, limit=400)})[:12]
    for rep in range(ctx.scale(2, 12)):
        r = rng.choice([1, 2, 3])
        tscript = rd_hex(good_readings(rng, 40 + 3 * r))
        pts = [0] + [1 << i for i in range(64)]
        outs = ctx.real("next_u64 on a fixed timer script as a map of the initial pool: basis pools", [ge(tscript, r, v) for v in pts])
        if any(len(o) < 6 or len(o[4]) != 16 or o[5] != outs[0][5] for o in outs):
            ctx.notes.append("whole-collection map: some basis evaluation failed or consumed a different number of readings")
            ctx.disagreements.append(dict(family="whole-collection pool map", case=ge(tscript, r, 0), line=4, cmd="u64 1",
                                          impl=str([o[4:] for o in outs[:2]]), model="a value and a pool-independent number of readings"))
            continue
        g0 = int(outs[0][4], 16)
        lin = [int(o[4], 16) ^ g0 for o in outs[1:]]
        rank, ker = gf2.rank_and_kernel(lin, 64)
        ctx.dist[f"rank(whole collection, rounds={r})={rank}"] += 1
        if ker is not None:
            a = rng.getrandbits(64)
            c = ge(tscript, r, a) + ge(tscript, r, a ^ ker)
            o = ctx.real("collision from a kernel vector of the whole-collection map", [c])[0]
            if o[4] == o[10]:
                ctx.fail("collision", "one collection (next_u64 on a fixed timer script) maps two different pools to the same value", c,
                         expected="different values", actual=o[4])
            continue
        targets = [("0", 0), ("ones", MASK64), ("1", 1), ("2^63", 1 << 63), ("2^32", 1 << 32)] + [(f"const {v:x}", v) for v in consts]
        pre = [(tag, tv, solve(lin, tv ^ g0)) for tag, tv in targets]
        fx = solve([c ^ (1 << i) for i, c in enumerate(lin)], g0)
        if fx is not None:
            pre.append(("fixed point", fx, fx))
        pre = [(tag, tv, x) for tag, tv, x in pre if x is not None]
        so = ctx.real("next_u64 at the special points of its own pool map", [ge(tscript, r, x) for _, _, x in pre])
        for (tag, tv, x), o in zip(pre, so):
            ctx.dist["whole-collection special point:" + tag.split()[0]] += 1
            if len(o) < 5 or len(o[4]) != 16:
                continue
            z = int(o[4], 16)
            if z != tv:
                # the value returned instead has another pre-image under the affine law: a collision if the code follows the law there
                x2 = solve(lin, z ^ g0)
                c = ge(tscript, r, x) + (ge(tscript, r, x2) if x2 is not None else [])
                o2 = ctx.real("second pre-image of the value returned at a special point", [c])[0]
                if x2 is not None and x2 != x and len(o2) > 10 and o2[10] == o2[4]:
                    ctx.fail("collision", f"one collection maps two different pools ({x:016x} and {x2:016x}) to the same value: the pool whose "
                             f"value should be {tag} is merged with another one", c, expected="different values", actual=o2[4])
                else:
                    ctx.fail("collision", f"one collection, as a map of the pool, leaves its own affine law at the pool {x:016x} (value {tag} expected "
                             f"from its 65 basis evaluations): it is not the one-to-one map it is on every basis vector", c,
                             expected=f"{tv:016x}", actual=o[4])
    # --- the variable-rounds path (timer_stats(true)): the throw-away rounds must not change the fold
    vr, vmeta = [], []
    for _ in range(ctx.scale(60, 800)):
        d, t = rng.getrandbits(64), rng.getrandbits(64)
        if rng.random() < 0.3:
            d = 1 << rng.randrange(64)
        vr.append([f"timer 0 {t:x},{t:x},{t:x},{t:x}", "jit 1 0", f"setpool 1 {d:016x}", "stats 1 1", "pool 1", "calls 0"])
        vr.append(lf(d, t))
    hv, _ = ctx.absolute("lfsr fold with variable throw-away rounds (timer_stats(true)) vs model and vs the fixed-rounds fold", vr)
    for k in range(0, len(vr), 2):
        a, b = hv[k], hv[k + 1]
        if a[4] != b[4] and "blocked" not in a and "panic" not in a:
            ctx.fail("collision", "the fold of one time value into one pool value depends on the number of throw-away rounds: "
                     "for fixed timer readings the step is no longer a function of (pool, time) that is one-to-one in the pool",
                     vr[k], expected=b[4], actual=a[4])

def falsify_C15(ctx):
    """birthday / low-weight search for a collision when the real map is not affine"""
    rng = ctx.rng
    for name, mk in (("stir", lambda d: ["timer 0 1", "jit 1 0", f"setpool 1 {d:016x}", "stir 1", "pool 1"]),
                     ("lfsr(pool)", lambda d: ["timer 0 5,5", "jit 1 0", f"setpool 1 {d:016x}", "stats 1 0", "pool 1"]),
                     ("lfsr(time)", lambda t: [f"timer 0 {t:x},{t:x}", "jit 1 0", "setpool 1 0000000000000000", "stats 1 0", "pool 1"])):
        seen = {}
        base = rng.getrandbits(64)
        ins = [base] + [base ^ (1 << i) for i in range(64)] + [base ^ (1 << i) ^ (1 << j) for i in range(64) for j in range(i)]
        ins += [rng.getrandbits(64) for _ in range(20000)]
        outs = ctx.real(f"collision search for {name}", [mk(v) for v in ins])
        for v, o in zip(ins, outs):
            if o[4] in seen and seen[o[4]] != v:
                c = mk(seen[o[4]]) + mk(v)
                ctx.fail("collision", f"{name} is not one-to-one", c, expected="different pool values", actual=o[4])
                return
            seen[o[4]] = v

# ------------------------------------------------------------------ C16: every collected value handed out once
def good_readings(rng, n):
    """non-stuck timer: strictly increasing with erratic steps"""
    t, out = rng.getrandbits(40), []
    for _ in range(n):
        t += rng.randrange(1, 100000)
        out.append(t)
    return out

def tie_C16(ctx):
    rng = ctx.rng
    cases, meta = [], []
    for i in range(ctx.scale(120, 2000)):
        r = rng.choice([1, 1, 2, 3, 5, 9, 255]) if i % 10 else 255
        rs = good_readings(rng, 40 + 3 * (r + 3) * 8)
        hx = rd_hex(rs)
        head = [f"timer 0 {hx}", "jit 1 0", f"rounds 1 {r}", f"timer 2 {hx}", "jit 3 2", f"rounds 3 {r}"]
        shape = i % 5
        if shape == 0:
            body = ["u32 1", "calls 0", "u32 1", "calls 0", "u64 3", "calls 2", "u32 1", "calls 0", "u64 3", "u64 3"]
        elif shape == 1:
            x = rng.choice(["u64 1", "fill 1 5", "fill 1 8", "fill 1 13", "fill 1 7", "fill 1 16"])
            body = ["u32 1", "calls 0", x, "calls 0", "u64 3", "u64 3", "u64 3", "u32 1", "calls 0"]
        elif shape == 2:
            body = ["u32 1", "calls 0", "clone 4 1", "u32 4", "calls 0", "u32 1", "calls 0", "u64 3", "u64 3", "u32 4", "u32 1"]
        elif shape == 3:
            n = rng.choice([1, 2, 3, 4])
            body = ["u32 1", "calls 0", f"fill 1 {n}", "calls 0", "u64 3", "u64 3", "u32 1", "calls 0"]
        else:
            body = ["u32 1", "calls 0", "fill 1 0", "calls 0", "u32 1", "calls 0", "u64 3", "u64 3"]
        cases.append(head + body)
        meta.append((shape, r))
        ctx.dist[f"shape{shape}"] += 1
    # collected values with a zero / all-ones / repeated half (solved over GF(2), see jitter_special_words)
    hi = [1 << (32 + i) for i in range(32)]
    lo = [1 << i for i in range(32)]
    for name, rs_, v in jitter_special_words(ctx, [("high-half-zero", hi, [0] * 32), ("low-half-zero", lo, [0] * 32),
                                                    ("halves-equal", [(1 << i) | (1 << (32 + i)) for i in range(32)], [0] * 32)]):
        hx = rd_hex(rs_)
        head = [f"timer 0 {hx}", "jit 1 0", "rounds 1 1", f"timer 2 {hx}", "jit 3 2", "rounds 3 1"]
        cases.append(head + ["u32 1", "calls 0", "u32 1", "calls 0", "u64 3", "calls 2", "u32 1", "calls 0", "u64 3", "u64 3"])
        meta.append((0, 1))
        cases.append(head + ["u32 1", "calls 0", "clone 4 1", "u32 4", "calls 0", "u32 1", "calls 0", "u64 3", "u64 3", "u32 4", "u32 1"])
        meta.append((2, 1))
        ctx.dist[f"special-word:{name}"] += 2
    # clone_from (Clone::clone_from may be overridden: Vec::clone_from / clone_from_slice call it): a destination that holds
    # a pending half of its own must not keep it, nor take over the source's
    for i in range(ctx.scale(24, 300)):
        r = rng.choice([1, 2, 3, 5])
        hx, hx2 = rd_hex(good_readings(rng, 40 + 3 * (r + 3) * 8)), rd_hex(good_readings(rng, 60))
        dst_pending, src_pending = i % 2 == 0, i % 4 < 2
        c = [f"timer 0 {hx}", "jit 1 0", f"rounds 1 {r}", f"timer 2 {hx}", "jit 3 2", f"rounds 3 {r}",
             f"timer 4 {hx2}", "jit 5 4", f"rounds 5 {r}", "u32 5" if dst_pending else "u64 5", "u32 1" if src_pending else "u64 1",
             "calls 0", "clonefrom 5 1", "u32 5", "calls 0", "u32 1", "calls 0", "u64 3", "u64 3"]
        cases.append(c); meta.append((5, r))
        ctx.dist[f"clone_from:dst_pending={dst_pending},src_pending={src_pending}"] += 1
    # fault at a particular point: the timer runs dry (its closure unwinds) inside the collection of a next_u64 / fill_bytes that
    # follows a next_u32; the caller catches the unwind, the timer is replenished, and the next next_u32 must still come from a
    # fresh collection (the pending half was to be discarded by the interrupted call)
    for i in range(ctx.scale(24, 200)):
        r = rng.choice([1, 2, 3])
        fresh_reads = 1 + 3 * (1 + r)
        first = good_readings(rng, fresh_reads)                 # exactly one collection for the first next_u32
        cut = rng.randrange(1, fresh_reads)                      # the second collection gets only `cut` readings
        more = good_readings(rng, cut)
        rest = good_readings(rng, 4 * fresh_reads + 8)
        x = rng.choice(["u64 1", "fill 1 8", "fill 1 13", "fill 1 5"])
        c = [f"timer 0 {rd_hex(first + more)}", "jit 1 0", f"rounds 1 {r}", "u32 1", "calls 0", x, "calls 0",
             f"tappend 0 {rd_hex(rest)}", "u32 1", "calls 0"]
        cases.append(c); meta.append((6, r))
        ctx.dist["timer-unwinds-mid-collection"] += 1
    # … and the interrupted call is itself a next_u32 (or a fill of 1..4 bytes) with NO half pending — optionally after complete
    # calls, so that an already handed-out value sits in the pool: whatever the unwound call left behind, the next next_u32 must
    # come from a fresh collection, and the one after it must be the high half of that same value without a timer read
    for i in range(ctx.scale(40, 300)):
        r = rng.choice([1, 2, 3])
        fresh_reads = 1 + 3 * (1 + r)
        pre_ops = rng.choice([[], ["u64 1"], ["u32 1", "u32 1"], ["u64 1", "u64 1"], ["fill 1 8"]])
        npre = sum(2 if o == "u32 1" else 2 for o in pre_ops) // 2 if pre_ops else 0
        npre = {0: 0, 1: 1, 2: 1 if pre_ops and pre_ops[0] == "u32 1" else 2}[len(pre_ops)]
        first = good_readings(rng, npre * fresh_reads)
        cut = rng.choice([0, 0, 1, 2, 3, rng.randrange(0, fresh_reads)])       # readings available to the interrupted call
        more = [first[-1] + 1000 + 77 * k * k for k in range(cut)] if first else good_readings(rng, cut)
        rest = good_readings(rng, 4 * fresh_reads + 8)
        x = rng.choice(["u32 1", "u32 1", "fill 1 3", "fill 1 4", "fill 1 1"])
        c = [f"timer 0 {rd_hex(first + more)}", "jit 1 0", f"rounds 1 {r}"] + pre_ops + ["calls 0", x, "calls 0",
             f"tappend 0 {rd_hex(rest)}", "u32 1", "calls 0", "u32 1", "calls 0"]
        cases.append(c); meta.append((7, (r, len(pre_ops))))
        ctx.dist["timer-unwinds-inside-next_u32"] += 1
    # real-vs-real (twin on an identical timer); the Jitter model itself is tied to the code by C12's absolute tie
    h = ctx.real("JitterRng halves, fresh collections, clones: twins on identical timer scripts with call counts", cases)
    ctx.traces_validated += len(cases)
    for (shape, r), c, o in zip(meta, cases, h):
        b = o[6:]
        if shape == 7:
            r, npre = r
        fresh = 1 + 3 * (1 + r)
        if "blocked" in o and shape not in (6, 7):
            continue
        if shape == 7:
            k = 3 + npre            # index of the first `calls`
            # o[k]: calls, o[k+1]: X (blocked), o[k+2]: calls, o[k+3]: tappend, o[k+4]: u32, o[k+5]: calls, o[k+6]: u32, o[k+7]: calls
            if len(o) < k + 8 or o[k + 1] != "blocked" or o[k + 3] != "ok" or o[k + 4] in ("blocked", "panic") or o[k + 6] in ("blocked", "panic"):
                continue
            c2, c3, c4 = int(o[k + 2]), int(o[k + 5]), int(o[k + 7])
            if c3 - c2 < fresh:
                ctx.fail("discard", f"after `{c[k + 1]}` (no half pending) was interrupted by the timer unwinding (caught by the caller), the next "
                         f"next_u32 did not start a fresh collection ({c3 - c2} timer readings, need >= {fresh}): it handed out bits of a "
                         f"value that was never completed / was already handed out", c, expected="fresh collection", actual=o[k + 4])
            elif c4 != c3:
                ctx.fail("halves", "after an interrupted call and a fresh next_u32, the following next_u32 read the timer instead of returning "
                         "the pending high half", c, expected=str(c3), actual=str(c4))
            continue
        if shape == 6:
            # o: timer, jit, rounds, u32, calls, X(blocked), calls, tappend, u32, calls
            if o[5] != "blocked" or o[7] != "ok" or o[8] in ("blocked", "panic"):
                continue
            c2, c3 = int(o[6]), int(o[9])
            if c3 - c2 < fresh:
                ctx.fail("discard", f"after `{c[5]}` was interrupted by the timer unwinding (caught by the caller), next_u32 handed out the "
                         f"pending half of the old value without a fresh collection ({c3 - c2} timer readings, need >= {fresh})", c,
                         expected="fresh collection", actual=o[8])
            continue
        if shape == 5:
            if o[12] != "ok":
                continue
            c1, c2, c3 = int(o[11]), int(o[14]), int(o[16])
            w1, w2 = o[17], o[18]
            src_pending = c[10].startswith("u32")
            if c2 - c1 < fresh or o[13] != w2[8:]:
                ctx.fail("clone", "after dst.clone_from(&src) the destination's first next_u32 does not come from a fresh collection "
                         "(it kept a pending-half flag and handed out a half of the source's value)", c, expected=w2[8:], actual=o[13])
            if src_pending and (c3 != c2 or o[15] != w1[:8]):
                ctx.fail("clone", "the source lost its pending high half after clone_from", c, expected=w1[:8], actual=o[15])
            continue
        if shape == 0:
            lo, c1, hi, c2, w, ct = b[0], int(b[1]), b[2], int(b[3]), b[4], int(b[5])
            if hi + lo != w:
                ctx.fail("halves", "two consecutive next_u32 are not (low, high) of the value next_u64 would have returned", c,
                         expected=w, actual=hi + lo)
            if c2 != c1 or c1 != ct:
                ctx.fail("halves", "the second next_u32 read the timer / the pair did not cost exactly one collection", c,
                         expected=f"{ct} {ct}", actual=f"{c1} {c2}")
            c3 = int(b[7])
            if c3 - c2 < fresh or b[6] != b[8][8:]:
                ctx.fail("halves", "a next_u32 with no half pending did not start a fresh collection", c)
        elif shape == 1:
            c1, c2 = int(b[1]), int(b[3])
            w2 = b[5]
            got = b[2]
            le = bytes.fromhex(w2)[::-1].hex()
            okv = (got == w2) if c[8].startswith("u64") else le.startswith(got[:min(len(got), 16)])
            if c2 - c1 < fresh or not okv:
                ctx.fail("discard", f"`{c[8]}` after a next_u32 did not discard the pending half and start a fresh collection "
                         f"({c2 - c1} timer readings, need >= {fresh})", c, expected=w2, actual=got)
            # a following next_u32 must not hand out a half of an already returned value
            nwords = 1 if c[8].startswith("u64") else (int(c[8].split()[2]) + 7) // 8
            tailn = 0 if c[8].startswith("u64") else int(c[8].split()[2]) % 8
            c3 = int(b[8])
            if not (1 <= tailn <= 4) and (c3 - c2 < fresh):
                ctx.fail("twice", f"next_u32 after `{c[8]}` returned a half of a value that was already handed out "
                         f"(no fresh collection: {c3 - c2} timer readings)", c, expected="fresh collection", actual=b[7])
        elif shape == 2:
            c1, c2, c3 = int(b[1]), int(b[4]), int(b[6])
            w1, w2 = b[7], b[8]
            if c2 - c1 < fresh or b[3] != w2[8:]:
                ctx.fail("clone", "a clone's first output does not come from a fresh collection (it reused the original's pending half)", c,
                         expected=w2[8:], actual=b[3])
            if c3 != c2 or b[5] != w1[:8]:
                ctx.fail("clone", "the original lost its pending high half after being cloned", c, expected=w1[:8], actual=b[5])
        elif shape == 3:
            c1, c2 = int(b[1]), int(b[3])
            if c2 == c1:
                # documented wording says fill_bytes discards a pending half; for 1..4 bytes it serves the pending half instead
                ctx.fail("discard", "fill_bytes(n), 1<=n<=4, with a half pending returns bytes of the pending half without a fresh collection",
                         c, expected="fresh collection", actual="pending half", key="C16-fill-1to4-uses-pending-half")
                w1 = b[4]
                n = int(c[8].split()[2])
                hi_le = bytes.fromhex(w1[:8])[::-1].hex()
                if b[2] != hi_le[:2 * n]:
                    ctx.fail("twice", "bytes returned by fill_bytes are not the pending half", c, expected=hi_le[:2 * n], actual=b[2])
                # the half must not be handed out a second time
                if int(b[7]) - c2 < fresh:
                    ctx.fail("twice", "the pending half was handed out twice (fill_bytes, then next_u32)", c)
        else:
            c1, c2, c3 = int(b[1]), int(b[3]), int(b[5])
            if c2 != c1 or c3 != c2 or b[0] != b[6][8:] or b[4] != b[6][:8]:
                ctx.fail("halves", "fill_bytes(0) disturbed the pending half", c)

PROPS.update({
    "C14": dict(tie=tie_C14),
    "C15": dict(tie=tie_C15, falsifier=falsify_C15),
    "C16": dict(tie=tie_C16),
})

# ------------------------------------------------------------------ C17: Debug hides state
HIDING = ["XorShiftRng", "Hc128Rng", "IsaacRng", "Isaac64Rng"]

def tie_C17(ctx):
    rng = ctx.rng
    cases, meta = [], []
    for g in HIDING:
        info = GENS[g]
        for i in range(ctx.scale(40, 500)):
            ops = rand_ops(rng, rng.randrange(0, 6), maxfill=1100 if "blk" in info else 30)
            if "blk" in info:
                ops = ["u32"] * rng.choice([0, 1, 5, info["blk"] - 1, info["blk"]]) + ops
            s1, s2 = rand_bytes(rng, info["seed"]), rand_bytes(rng, info["seed"])
            c = []
            for slot, s in ((0, s1), (1, s2)):
                c += [f"new {slot} {g} seed {s.hex()}"] + op_lines(slot, ops)
            c += ["dbg 0", "dbgp 0", "dbg 1", "dbgp 1", "clone 2 0", f"fill 2 {4 * 40}", "clone 3 0"]
            c += ["ser 3"] if info["ser"] else ["fill 3 0"]
            cases.append(c); meta.append((g, len(c) - 8))
            ctx.dist[f"{g}:two-seeds-same-history"] += 1
    # JitterRng: two instances on different timers, same history
    for i in range(ctx.scale(20, 200)):
        rs, rs2 = good_readings(rng, 200), good_readings(rng, 200)
        ops = rng.choice([[], ["u32"], ["u64"], ["u32", "u32"], ["u64", "u32"], ["fill 9"]])
        if i % 2 == 1:
            # one of the two timers misbehaves for a while (a run of stuck measurements inside a collection, a backwards step,
            # huge deltas) and recovers: internal health statistics must not show in the text either
            run = rng.choice([9, 24, 25, 40, 130, 260, 300])
            lead = 1          # priming measurement, one accepted round, then the run begins inside the rounds loop
            deltas = [rng.randrange(900, 5000) for _ in range(lead)] + [1000] * run + [rng.randrange(900, 5000) for _ in range(60)]
            if i % 4 == 3:
                deltas[-3] = -rng.randrange(1, 500); deltas[-5] = 0x7fffffff
            rs = meas_script(rng, deltas)
            ops = rng.choice([["u64"], ["u32", "u32"], ["u64", "u32"], ["fill 9"], ["u64", "u64"]])
            ctx.dist["JitterRng:faulty-timer-vs-healthy"] += 1
        c = [f"timer 0 {rd_hex(rs)}", "jit 1 0", "rounds 1 2", f"timer 2 {rd_hex(rs2)}", "jit 3 2", "rounds 3 2"] + \
            op_lines(1, ops) + op_lines(3, ops) + ["dbg 3", "dbgp 3", "dbg 1", "dbgp 1", "pool 1"]
        cases.append(c); meta.append(("JitterRng", len(c) - 5))
    # states that only deserialisation can produce (all-zero XorShift state, arbitrary words)
    for img in [bytes(16), b"\xff" * 16] + [rand_bytes(rng, 16) for _ in range(ctx.scale(6, 60))] + \
               [bytes(12) + rand_bytes(rng, 4), rand_bytes(rng, 4) + bytes(12)]:
        c = [f"de 0 XorShiftRng {img.hex()}", "dbg 0", "dbgp 0"]
        cases.append(c); meta.append(("XorShiftRng-de", 1))
    h, _ = ctx.absolute("{:?} and {:#?} of the state-hiding generators vs the model's template (function of read position only)", cases,
                        mask=lambda c: not (c.startswith("dbg") or c.startswith("de ")))
    import re
    for (g, at), c, o in zip(meta, cases, h):
        if g == "XorShiftRng-de":
            if o[1] != "XorShiftRng {}" or o[2] != "XorShiftRng {}":
                ctx.fail("debug", "XorShiftRng: Debug output of a deserialised state is not the constant text (it depends on the state)",
                         c, expected="XorShiftRng {}", actual=o[1])
            continue
        if g == "JitterRng":
            texts = [o[at + 2], o[at + 3]]
            if o[at] != o[at + 2] or o[at + 1] != o[at + 3]:
                ctx.fail("debug", "JitterRng: Debug output differs between two generators with different timers and the same history",
                         c, expected=o[at + 2], actual=o[at])
            words = {int(o[at + 4], 16)} if o[at + 4] != "unsupported" else set()
        else:
            texts = o[at:at + 4]
            if o[at] != o[at + 2] or o[at + 1] != o[at + 3]:
                ctx.fail("debug", f"{g}: Debug output depends on the seed (two seeds, same history)", c, expected=o[at], actual=o[at + 2])
            fut = bytes.fromhex(o[at + 5]) if o[at + 5] != "-" else b""
            words = {int.from_bytes(fut[i:i + 4], "little") for i in range(0, len(fut), 4)}
            words |= {int.from_bytes(fut[i:i + 8], "little") for i in range(0, len(fut) - 7, 8)}
            if GENS[g]["ser"] and o[at + 7] not in ("unsupported", "-"):
                img = bytes.fromhex(o[at + 7])
                words |= {int.from_bytes(img[i:i + 4], "little") for i in range(0, min(len(img), 64), 4)}
        nums = set()
        for t in texts:
            for tok in re.findall(r"0x[0-9a-fA-F]+|\b[0-9a-fA-F]{6,}\b|\b\d+\b", t):
                try:
                    nums.add(int(tok, 16) if tok.lower().startswith("0x") else int(tok))
                except ValueError:
                    pass
                try:
                    nums.add(int(tok, 16))
                except ValueError:
                    pass
        leak = {w for w in words if w > 4096} & nums
        if leak:
            ctx.fail("debug", f"{g}: Debug output contains a state / buffered output word ({sorted(leak)[0]:#x})", c)

# ------------------------------------------------------------------ C18: build configurations


# ------------------------------------------------------------------ the block cores driven directly (BlockRngCore::generate)
def core_level(ctx, gens):
    """`generate` is public API (BlockRngCore): the k-th block must be a function of the core alone — the same whether the
    caller passes a fresh (Default) buffer, a dirty one or always the same one — and equal to the k-th block the wrapper
    hands out.  Real code only (the model's `generate` takes the core and returns the block)."""
    rng, cases, meta = ctx.rng, [], []
    for g in gens:
        info = GENS[g]
        blk, wb = info["blk"], info["w"] // 8
        for _ in range(ctx.scale(3, 20)):
            seed = pick_seed(rng, info["seed"])
            for k in (1, 2, 3, rng.randrange(4, 9)):
                c = [f"core {g} {seed.hex()} {k} fresh", f"core {g} {seed.hex()} {k} dirty", f"core {g} {seed.hex()} {k} same",
                     f"core {g} {seed.hex()} {k} due", f"core {g} {seed.hex()} {k} due-first", f"core {g} {seed.hex()} {k} due-last",
                     f"core {g} {seed.hex()} {k} next",
                     f"new 0 {g} seed {seed.hex()}", f"fill 0 {(k - 1) * blk * wb}", f"fill 0 {blk * wb}"]
                cases.append(c); meta.append((g, k, wb))
                ctx.dist[f"{g}:core-level generate"] += 1
    outs = ctx.real("BlockRngCore::generate driven directly with fresh / dirty / reused result buffers vs the wrapper's blocks", cases)
    for (g, k, wb), c, o in zip(meta, cases, outs):
        if o[0] in ("unsupported", "bad-op"):
            continue
        # the harness prints words big-endian; the wrapper's fill is little-endian bytes
        raw = bytes.fromhex(o[9]) if o[9] not in ("-", "panic") else b""
        want = "".join(raw[i:i + wb][::-1].hex() for i in range(0, len(raw), wb))
        modes = ["fresh", "dirty", "reused", "holding the due block", "due block with another first word", "due block with another last word",
                 "holding the block after the due one"]
        bad = next((i for i in range(1, 7) if o[i] != o[0]), None)
        if bad is not None:
            ctx.fail("core-generate", f"{g}: the block produced by generate() depends on the previous contents of the caller's result "
                     f"buffer (block {k}: a fresh buffer and one {modes[bad]} give different words)", c, expected=o[0][:64], actual=o[bad][:64])
        elif o[0] != want:
            ctx.fail("core-generate", f"{g}: block {k} of the core driven directly differs from block {k} handed out by the wrapper", c,
                     expected=want[:64], actual=o[0][:64])

def hc128_expansion_word_seeds(rng, per_pos=1):
    """HC-128 seeds for which one word of the key/IV expansion W[16..31] is exactly 0 / 1 / all-ones: W[i] = f2(W[i-2]) + W[i-7] +
    f1(W[i-15]) + W[i-16] + i and for i < 32 the term W[i-16] is a seed word (key, key, iv, iv), so the word is reached by
    solving for that seed word (fixed-point iteration, verified).  A clamp / guard / saturation on a freshly expanded word fires
    exactly on such seeds (a random seed has one with probability 2^-24)."""
    cp = os.path.join(VERIF, "corpus", "hc128_expansion_words.json")
    if os.path.exists(cp):
        # found once with z3 (tools/gen_hc128_expansion_words.py): deeper words than the correction below reaches
        try:
            corp = [(f"expansion-{e['stage']}{e['index']}={e['value']}", bytes.fromhex(e["seed"])) for e in json.load(open(cp))]
            if len(corp) >= 12:
                return corp
        except Exception:
            pass
    M = 0xffffffff
    rotr = lambda x, r: ((x >> r) | (x << (32 - r))) & M
    f1 = lambda x: rotr(x, 7) ^ rotr(x, 18) ^ (x >> 3)
    f2 = lambda x: rotr(x, 17) ^ rotr(x, 19) ^ (x >> 10)
    def expand(words, upto):
        k, iv = words[:4], words[4:]
        W = k + k + iv + iv
        for i in range(16, upto + 1):
            W.append((f2(W[i - 2]) + W[i - 7] + f1(W[i - 15]) + W[i - 16] + i) & M)
        return W
    out = []
    for i in range(16, 32):
        for tag, target in (("0", 0), ("1", 1), ("ones", M)):
            for _ in range(per_pos):
                for attempt in range(40):
                    words = [rng.getrandbits(32) for _ in range(8)]
                    ok = False
                    # any seed word that enters W[i] (approximately) additively: correct it until the target is met
                    for j in sorted(range(8), key=lambda q: q != (i - 16) % 4 + (4 if i - 16 >= 8 else 0)):
                        ws = list(words)
                        for it in range(48):
                            cur = expand(ws, i)[i]
                            if cur == target:
                                ok = True; break
                            ws[j] = (ws[j] + target - cur) & M
                        if ok:
                            words = ws; break
                    if ok:
                        out.append((f"expansion-word{i}={tag}", b"".join(w.to_bytes(4, "little") for w in words)))
                        break
    return out

# ------------------------------------------------------------------ arithmetic-edge corpus shared by C02 / C14 / C18
def hc128_edge_seeds(ctx, n_carry=40, per_kind=2):
    """HC-128 seeds on which a small-constant addition of the key/IV expansion overflows: the total (tools/gen_hc128_carry.py)
    and every single operand / partial sum with the constant (tools/gen_hc128_subsum.py)"""
    rng, out = ctx.rng, []
    cpath = os.path.join(VERIF, "corpus", "hc128_carry_seeds.json")
    if os.path.exists(cpath):
        corp = json.load(open(cpath))
        keys = [k for k in corp if 256 <= int(k) < 272] + rng.sample(sorted(corp), min(len(corp), n_carry))
        for k in keys:
            for hx in corp[k][:1]:
                out.append((f"carry@{'copy' if 256 <= int(k) < 272 else 'exp'}", bytes.fromhex(hx)))
    spath = os.path.join(VERIF, "corpus", "hc128_subsum_seeds.json")
    if os.path.exists(spath):
        corp = json.load(open(spath))
        for kind in sorted(corp):
            for e in (corp[kind] if ctx.thorough else corp[kind][:per_kind]):
                out.append((f"subsum:{kind}", bytes.fromhex(e["seed"])))
    return out

def long_stuck_case(rng, n=None, rounds=2):
    """one collection with more than 65536 consecutive stuck measurements (counters of 8 and 16 bits, scratch memory
    incremented hundreds of times), after which the timer recovers"""
    n = n or (65536 + rng.randrange(1, 40))
    deltas = [1234] + [1000] * n + [1007, 1019, 1051, 1004, 977, 1313, 2222, 3131, 4000, 4700]
    return [f"timer 0 {rd_hex(meas_script(rng, deltas))}", "jit 1 0", f"rounds 1 {rounds}", "u64 1", "calls 0"]

def arith_edge_cases(ctx):
    rng, cases = ctx.rng, []
    for cls, sd in hc128_edge_seeds(ctx, n_carry=ctx.scale(12, 200)):
        cases.append([f"new 0 Hc128Rng seed {sd.hex()}", "u32 0", "fill 0 70"])
        ctx.dist[f"hc128:{cls.split(':')[0]}"] += 1
    for g in LINEAR:
        for cls, st in special_states(rng, g, k=1):
            if cls.startswith("out=") or cls.startswith("zero-word") or cls.startswith("sum0") or cls.startswith("neg"):
                c = [f"new 0 {g} seed {st.hex()}", "u32 0", "u64 0", "fill 0 9"]
                if GENS[g]["jump"]:
                    c += ["jump 0", "ljump 0"]
                cases.append(c)
                ctx.dist["linear:" + cls.split("_")[0]] += 1
    cases.append(long_stuck_case(rng))
    ctx.dist["65536+ consecutive stuck measurements"] += 1
    return cases

def isaac_counter_extreme_cases(ctx, rng):
    """states that only a very long history reaches — ISAAC's a / b / c (block counter) fields at all-ones — injected through the
    serde image of a real generator; followed by three blocks of output"""
    inj, cases = [], []
    for g in ("IsaacRng", "Isaac64Rng"):
        inj.append([f"new 0 {g} seed {rand_bytes(rng, 32).hex()}", f"{native(g)} 0", "ser 0"])
    oi = ctx.real("images for counter-extreme states", inj)
    for c0, o in zip(inj, oi):
        g = c0[0].split()[2]
        if o[2] in ("unsupported", "panic"):
            continue
        img = bytearray(bytes.fromhex(o[2]))
        wsz = 4 if g == "IsaacRng" else 8
        for fields in ((1, 1, 1), (0, 0, 1), (1, 0, 0), (0, 1, 0)):        # a, b, c at all-ones
            b = bytearray(img)
            for k, on in enumerate(fields):
                if on:
                    off = len(b) - (3 - k) * wsz
                    b[off:off + wsz] = b"\xff" * wsz
            cases.append([f"de 0 {g} {bytes(b).hex()}", f"fill 0 {3 * 256 * wsz}", "u32 0", "u64 0"])
            ctx.dist[f"{g}:counter fields at maximum"] += 1
    return cases

def corpus_C18(ctx, serde_free=True):
    rng = random.Random(ctx.seed * 7919 + 18)
    cases = []
    for g in GENS:
        info = GENS[g]
        for i in range(ctx.scale(12, 120)):
            seed = rand_bytes(rng, info["seed"]) if i else bytes(info["seed"])
            ops = history(rng, g, rng.randrange(3, 10))
            if "blk" in info:
                ops = ["u32"] * rng.choice([0, 3, info["blk"] - 1]) + ops + ["fill 2500"]
            cases.append([f"new 0 {g} seed {seed.hex()}"] + op_lines(0, ops) + ["clone 1 0", "eq 0 1" if g in REAL_EQ else "u32 1"])
        for x in (0, 1, MASK64, rng.getrandbits(64)):
            cases.append([f"new 0 {g} u64 {x:016x}", "u32 0", "u64 0", "fill 0 23"])
    for i in range(ctx.scale(40, 400)):
        rs = jitter_readings(rng, 400, rng.choice(["walk", "random", "huge", "backwards"]))
        cases.append([f"timer 0 {rd_hex(rs)}", "jit 1 0", f"rounds 1 {rng.choice([1, 2, 3])}", "u32 1", "u32 1", "u64 1", "fill 1 11",
                      "stats 1 1", "calls 0"])
    for i in range(ctx.scale(6, 40)):
        rs = probe_script(rng, [rng.randrange(1, rng.choice([5, 50, 1 << 20])) for _ in range(400)])
        cases.append([f"timer 0 {rd_hex(rs)}", "jit 1 0", "testtimer 1"])
    # arithmetic that would wrap in one profile and trap in another: deltas near +-2^31, 2^32, 2^63
    for i in range(ctx.scale(10, 80)):
        ds = [rng.choice([0x7fffffff, 0x7ffffffe, 0x80000000 - 3, 0x7fffff00]) if k % 2 == 0 else
              rng.choice([0x80000001, 0x80000002, 0x80000100, 0xffffff00]) for k in range(400)]
        cases.append([f"timer 0 {rd_hex(probe_script(rng, ds))}", "jit 1 0", "testtimer 1", "calls 0"])
        rs = hostile_readings(rng, 400)
        cases.append([f"timer 0 {rd_hex(rs)}", "jit 1 0", f"rounds 1 {rng.choice([1, 2])}", "u64 1", "stats 1 1", "stats 1 0", "u32 1", "calls 0"])
        t0 = rng.choice([(1 << 63) - 5, (1 << 63) - 1, MASK64 - 3])
        cases.append([f"timer 0 {rd_hex([t0, (t0 + 9) & MASK64, 5, 7, (t0 + 50) & MASK64, (t0 + 70) & MASK64])}", "jit 1 0",
                      "stats 1 0", "stats 1 1"])
    cases += arith_edge_cases(ctx)
    # serde-only cases (compared between the configurations that have the feature)
    cases += isaac_counter_extreme_cases(ctx, rng)
    return cases

def tie_C18(ctx):
    cases = corpus_C18(ctx)
    base = ctx.real("corpus in the tie profile (opt 2, overflow checks + debug assertions on, serde on)", cases)
    configs = [("release", False), ("release", True)] if not ctx.thorough else \
        [("dev", True), ("dev", False), ("o0nochk", True), ("o0nochk", False), ("release", True), ("release", False),
         ("o3chk", True), ("o3chk", False)]
    digest = lambda outs: hashlib.sha256("\n".join("\n".join(o) for o in outs).encode()).hexdigest()
    ctx.dist["digest:tie"] = 1
    ref = digest(base)
    ctx.notes.append(f"corpus digest in tie profile: {ref[:16]}")
    configs = configs + [("tie", "jlog")]
    for prof, serde in configs:
        if serde == "jlog":
            # rand_jitter's optional `log` feature, logger installed at Trace level
            ok, log, exe = harness_build(profile=prof, features="jlog", target_dir=os.path.join(HARNESS, "target-jlog"))
            name = "tie+log(trace logger)"
        else:
            td = os.path.join(HARNESS, "target" if serde else "target-noserde")
            ok, log, exe = harness_build(profile=prof, serde=serde, target_dir=td)
            name = f"{prof}{'+serde' if serde else '-serde'}"
        if not ok:
            ctx.notes.append(f"build {name} failed: {log[-400:]}")
            ctx.disagreements.append(dict(family="build " + name, case=["cargo build"], line=0, cmd="build", impl="failed", model="-"))
            continue
        outs = run_chunks(exe, cases)
        ctx.evaluations += len(cases)
        ctx.dist[f"config:{name}"] = len(cases)
        d = digest(outs)
        ctx.notes.append(f"corpus digest in {name}: {d[:16]}")
        for c, a, b in zip(cases, base, outs):
            if serde is False and any(l.startswith(("de ", "ser ", "rt ", "rth ")) for l in c):
                continue              # the case needs the serde feature
            if a != b:
                k = first_diff(a, b)
                if "blocked" in a[:k + 1]:
                    continue
                ctx.fail("config", f"output differs between build configurations: tie profile vs {name} at `{c[k][:50]}`", c,
                         expected=a[k][:80], actual=b[k][:80])
                break

# ------------------------------------------------------------------ C19: no hidden shared state
def tie_C19(ctx):
    rng = ctx.rng
    worlds = []
    # structural correspondence: the model represents every generator as a value and every operation as a function of its
    # arguments (theorem `frame`), so it corresponds to code WITHOUT process-wide or thread-wide mutable state.  The one static
    # of the pinned tree (rand_jitter's JITTER_ROUNDS cache of JitterRng::new) is exercised by the worlds below; any other one
    # is state the model does not have — the correspondence is broken until a world shows what it does.
    import common as _c
    ms = _c.new_mutable_statics()
    ctx.dist["mutable statics / thread-locals in the current sources"] = len(_c.mutable_statics(_c.REPO))
    for crate, name, decl in ms:
        ctx.disagreements.append(dict(family="structure: process-wide mutable state that the model does not have",
                                      case=[f"{crate}: {decl}", "(declared in the current source, not in the pinned source the model "
                                            "and the theorem `C19.frame` were written for)"], line=0, cmd=decl, impl="declared", model="absent"))
    for w in range(ctx.scale(30, 400)):
        n = rng.randrange(2, 7)
        gens = []
        shared_seed = rng.getrandbits(64)
        for k in range(n):
            g = rng.choice(list(GENS))
            how = rng.choice(["seed", "seed", "u64", "zero", "sameu64"])
            if how == "seed":
                ctor = f"new {k} {g} seed {pick_seed(rng, GENS[g]['seed']).hex()}"
            elif how == "zero":
                ctor = f"new {k} {g} seed {'00' * GENS[g]['seed']}"
            elif how == "u64":
                ctor = f"new {k} {g} u64 {rng.getrandbits(64):016x}"
            else:
                ctor = f"new {k} {g} u64 {shared_seed:016x}"
            ops = history(rng, g, rng.randrange(3, 9))
            gens.append([ctor] + op_lines(k, ops))
        # one JitterRng with its own scripted timer in some worlds
        if rng.random() < 0.4:
            k = n
            rs = good_readings(rng, 300)
            gens.append([f"timer {k + 10} {rd_hex(rs)}", f"jit {k} {k + 10}", f"rounds {k} 2", f"u32 {k}", f"u64 {k}", f"fill {k} 9"])
        worlds.append(gens)
    # JitterRng worlds aimed at process-wide state: one instance passes test_timer (its result is not 64), then a
    # second instance is created with new_with_timer and used WITHOUT set_rounds (default 64 rounds)
    for w in range(ctx.scale(6, 60)):
        ds = [rng.randrange(1, rng.choice([40, 400, 5000])) for _ in range(400)]
        probe = probe_script(rng, ds)
        rs = good_readings(rng, 700)
        worlds.append([[f"timer 10 {rd_hex(probe)}", "jit 0 10", "testtimer 0"],
                       [f"timer 11 {rd_hex(rs)}", "jit 1 11", "u64 1", "calls 11", "u32 1", "calls 11"]])
        ctx.dist["world:test_timer-then-fresh-jitter"] += 1
    # … and the std constructor on the real clock (it caches its round count process-wide) followed by a scripted-timer
    # instance that keeps the default rounds
    for w in range(ctx.scale(3, 20)):
        rs = good_readings(rng, 700)
        worlds.append([["jitnew", "jitnew"],
                       [f"timer 11 {rd_hex(rs)}", "jit 1 11", "u64 1", "calls 11", "u32 1", "calls 11"]])
        ctx.dist["world:JitterRng::new()-then-fresh-jitter"] += 1
    # several JitterRng instances, each on its own scripted timer, whose measurements sit exactly ON the boundaries of the
    # stuck test (first real delta = 2 x priming delta, repeated deltas, arithmetic runs): whether a measurement is
    # accepted then depends on every bit of the per-collection scratch state, so scratch state that survives a collection
    # and is shared (per thread, per process) shows as a different number of readings consumed / a different value.
    # Half of these worlds run all instances on ONE worker thread (thread-local state), half move between threads.
    one_thread = set()
    for w in range(ctx.scale(24, 200)):
        n = rng.randrange(2, 5)
        gens = []
        for k in range(n):
            rs = []
            for call in range(4):
                d0 = rng.randrange(1, 50000)
                d1 = rng.choice([2 * d0, 2 * d0, d0, 2 * d0 + 1, rng.randrange(1, 50000)])
                ds = [d0, d1] + rng.choice([stuck_pattern_deltas(rng, 8), [rng.randrange(1, 90000) for _ in range(8)]])
                rs += meas_script(rng, ds)
            rs += good_readings(rng, 60)
            r = rng.choice([1, 1, 2, 3])
            gens.append([f"timer {k + 10} {rd_hex(rs)}", f"jit {k} {k + 10}", f"rounds {k} {r}", f"u64 {k}", f"calls {k + 10}",
                         f"u64 {k}", f"calls {k + 10}", f"u32 {k}", f"u32 {k}", f"calls {k + 10}", f"fill {k} 9", f"calls {k + 10}"])
        if w % 2 == 0:
            one_thread.add(len(worlds))
        worlds.append(gens)
        ctx.dist["world:jitter-instances-on-stuck-boundaries" + ("-one-thread" if w % 2 == 0 else "")] += 1
    solo_cases, inter_cases, maps = [], [], []
    for wi, gens in enumerate(worlds):
        for seq in gens:
            solo_cases.append(seq)
        idx = [0] * len(gens)
        order = []
        nthreads = 1 if wi in one_thread else rng.randrange(2, 9)
        sequential = gens and gens[0] and gens[0][-1] in ("testtimer 0", "jitnew")
        while any(i < len(s) for i, s in zip(idx, gens)):
            live = [j for j in range(len(gens)) if idx[j] < len(gens[j])]
            k = live[0] if sequential else rng.choice(live)
            t = rng.randrange(nthreads)
            order.append((k, idx[k], f"@{t} {gens[k][idx[k]]}"))
            idx[k] += 1
        inter_cases.append([l for _, _, l in order])
        maps.append(order)
        ctx.dist[f"threads={nthreads}"] += 1
        ctx.dist[f"instances={len(gens)}"] += 1
    # every solo history in its OWN fresh process (nothing can leak into it), compared with the model
    solo = run_isolated(ctx.hexe, solo_cases)
    msolo = run_chunks(DRIVER, solo_cases)
    for c, ho, mo in zip(solo_cases, solo, msolo):
        ctx.count_case("each generator alone in a fresh process vs model", c)
        ctx.traces_validated += 1
        k = first_diff(ho, mo)
        if k is not None and "blocked" not in ho[:k + 1]:
            ctx.notes.append(f"solo run differs from the model at `{c[k][:40]}` (not a C19 matter; see C01-C04/C12)")
    # every world in its own process too, so that a failing world is a self-contained replay
    inter = run_isolated(ctx.hexe, inter_cases)
    for c in inter_cases:
        ctx.count_case("the same histories interleaved on 2-8 OS threads in one process (generators move between threads)", c)
    si = 0
    for gens, order, c, o in zip(worlds, maps, inter_cases, inter):
        solos = solo[si:si + len(gens)]
        si += len(gens)
        for (k, i, line), v in zip(order, o):
            if gens[k][i] == "jitnew":
                continue              # real clock: Ok or Err(reason) may legitimately vary from run to run
            if solos[k][i] != v:
                ctx.fail("isolation", f"instance {k}: `{gens[k][i][:60]}` returned a different value when other instances were used in the "
                         f"same process (interleaved, on other threads) than when run alone in a fresh process", c,
                         expected=solos[k][i][:80], actual=v[:80])
                break
    # constructions that overlap in time: a source that builds a generator of the same type while it delivers the seed
    # (re-entrancy) and truly concurrent from_rng calls on several OS threads — a static scratch buffer shows here
    rc = []
    for g in GENS:
        for rep in range(ctx.scale(1, 4)):
            rc.append([f"race {g} {rng.choice([4, 8, 12])} {ctx.scale(400, 4000)} {rng.getrandbits(63):x}"])
    ro = run_isolated(ctx.hexe, rc)
    for c, o in zip(rc, ro):
        ctx.count_case("overlapping constructions (re-entrant source, concurrent threads) vs the same constructions alone", c)
        ctx.dist["race:" + c[0].split()[1]] += 1
        if o[0] not in ("ok", "unsupported"):
            ctx.fail("isolation", f"{c[0].split()[1]}::from_rng gives a different generator when another construction overlaps it: {o[0][:120]}",
                     c, expected="ok", actual=o[0][:120])

PROPS.update({
    "C17": dict(tie=tie_C17),
    "C18": dict(tie=tie_C18),
    "C19": dict(tie=tie_C19),
})
