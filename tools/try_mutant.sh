#!/bin/sh
# usage: try_mutant.sh <patch.diff> <Cxx> [Cyy ...]   -- apply to /repo, run the quick checks, undo
patch="$1"; shift
cd /repo || exit 2
git diff --quiet || { echo "repo dirty"; exit 2; }
git apply "$patch" || { echo "patch does not apply"; exit 2; }
cd /verif
for p in "$@"; do
  python3 tools/check.py "$p" --tier quick 2>&1 | grep -E "VIOLATION|KNOWN|^C[0-9]+ " | cut -c1-400
done
git -C /repo checkout -- .
git -C /repo status --short | head -3
